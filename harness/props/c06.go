package props

import (
	"encoding/hex"
	"encoding/json"
	"fmt"
	"runtime"
	"strings"

	"verif/harness/mc"

	"github.com/evolbioinfo/goalign/align"
)

// ---- oracle: the IUPAC complement evaluated from the definition, independent of align/const.go

// c06Letters are the 15 IUPAC DNA letters; U (RNA) is only ever an input.
const c06Letters = "ACGTRYSWKMBDHVN"

// c06SetLetter maps a base set (iupacSet bits: T=1 C=2 A=4 G=8) to its DNA letter.
var c06SetLetter = func() (t [16]byte) {
	for i := 0; i < len(c06Letters); i++ {
		t[iupacSet(c06Letters[i])] = c06Letters[i]
	}
	return
}()

// c06Complement: the complement of an ambiguity code is the code of the
// Watson-Crick partners (A<->T, C<->G) of the bases it stands for; case is
// kept, U is read as T, and - . * are their own complement.  ok=false when the
// byte is none of these.
func c06Complement(b byte) (comp byte, ok bool) {
	if b == '-' || b == '.' || b == '*' {
		return b, true
	}
	set := iupacSet(b)
	if set == 0 {
		return 0, false
	}
	partners := 0
	for bit, partner := range [4]int{4, 8, 1, 2} { // T->A, C->G, A->T, G->C
		if set&(1<<bit) != 0 {
			partners |= partner
		}
	}
	comp = c06SetLetter[partners]
	if b >= 'a' {
		comp += 'a' - 'A'
	}
	return comp, true
}

// How far the statement and the documentation determine a strand transform.
const (
	c06Defined   = iota // every residue has an IUPAC complement: the result is determined
	c06Ambiguous        // X, ? or O: goalign detects them as nucleotide symbols but IUPAC gives them no complement (error or pass-through are both defensible)
	c06MustFail         // a residue that is no nucleotide symbol at all: documented to be an error
)

// c06ComplementString complements position-wise.
func c06ComplementString(s string) (string, int) {
	out := make([]byte, len(s))
	verdict := c06Defined
	for i := 0; i < len(s); i++ {
		comp, ok := c06Complement(s[i])
		switch {
		case ok:
			out[i] = comp
		case couldBeNt(s[i : i+1]):
			verdict = max(verdict, c06Ambiguous)
		default:
			verdict = c06MustFail
		}
	}
	return string(out), verdict
}

func c06Reverse(s string) string {
	out := make([]byte, len(s))
	for i := 0; i < len(s); i++ {
		out[len(s)-1-i] = s[i]
	}
	return string(out)
}

func c06MapBytes(s string, f func(byte) byte) string {
	out := make([]byte, len(s))
	for i := 0; i < len(s); i++ {
		out[i] = f(s[i])
	}
	return string(out)
}

func c06Lower(c byte) byte {
	if c >= 'A' && c <= 'Z' {
		return c + 32
	}
	return c
}

// c06Diff names the first clause in which got departs from want ("" when
// equal).  selected (optional) tells which rows the transform was asked to
// touch, so that damage to another row gets its own clause.
func c06Diff(got, want rows, selected []bool) string {
	if len(got) != len(want) {
		return "row-count"
	}
	for i := range want {
		if got[i].Name != want[i].Name {
			return "names"
		}
	}
	for i := range want {
		if len(got[i].Seq) != len(want[i].Seq) {
			return "row-length"
		}
	}
	for i := range want {
		if got[i].Seq != want[i].Seq {
			if selected != nil && !selected[i] {
				return "other-row-touched"
			}
			return "residues"
		}
	}
	return ""
}

// ---- cases

// c06Case is one input; every transform of the property is run on it.
//
//	byte: the single byte Byte as a 1x1 alignment whose alphabet is forced to nucleotide (complement-table probe)
//	row:  one row, alphabet auto-detected as the parsers do; also run through the Sequence-level functions
//	aln:  an alignment, alphabet auto-detected
//	bag:  a sequence set of any lengths (goalign's --unaligned input), alphabet auto-detected
type c06Case struct {
	Kind string   `json:"kind"`
	Byte int      `json:"byte,omitempty"`
	Seqs []string `json:"seqs,omitempty"`
	Hex  []string `json:"hex,omitempty"` // kind hibytes: the rows, hex encoded (JSON strings cannot carry bytes >= 0x80)
	// Procs: GOMAXPROCS during the case (0 = unchanged): operations that share rows out between processors
	Procs int `json:"procs,omitempty"`
}

const (
	c06Alpha35 = "ACGTRYSWKMBDHVNacgtryswkmbdhvn-.*Uu" // the quantified alphabet, plus U
	c06Alpha8  = "AcKmB-.*"
	c06Alpha5  = "AcKm-"
	c06Alpha10 = "AcKmB-.*Lq" // L, q: protein-only letters, make the set non-nucleotide

	c06Unknown = "zz" // a name no row has

	c06SkipU        = "involution on a row containing U: U->A->T is forced by the DNA table and U is outside the IUPAC DNA alphabet the statement quantifies over"
	c06SkipXO       = "strand transform of X, ? or O: detected as nucleotide symbols but without IUPAC complement, neither an error nor a pass-through is excluded"
	c06SkipNonASCII = "letter case of a non-ASCII byte is not defined by the statement"
)

// c06PrefixTasks appends one task per prefix of length p; together they
// enumerate every string of length l over alpha.
func c06PrefixTasks(ts []mc.Task, class, alpha string, l, p int, run func(c *mc.Ctx, s []byte)) []mc.Task {
	forEachStringLen(alpha, p, nil, func(pf []byte) bool {
		pf = append([]byte{}, pf...)
		ts = append(ts, mc.Task{Name: fmt.Sprintf("%s#L%d/%s", class, l, pf), Run: func(c *mc.Ctx) {
			forEachStringLen(alpha, l, pf, func(s []byte) bool {
				run(c, s)
				return !c.Expired()
			})
		}})
		return true
	})
	return ts
}

// c06Split cuts s into n consecutive pieces in every possible way (pieces may be empty).
func c06Split(s string, n int, f func(parts []string)) {
	if n == 1 {
		f([]string{s})
		return
	}
	for i := 0; i <= len(s); i++ {
		c06Split(s[i:], n-1, func(rest []string) { f(append([]string{s[:i]}, rest...)) })
	}
}

func c06Tasks(tier string) []mc.Task {
	thorough := tier == "thorough"
	var ts []mc.Task

	// (i) complement table: all 256 byte values
	for q := 0; q < 4; q++ {
		q := q
		ts = append(ts, mc.Task{Name: fmt.Sprintf("table#%d", q), Run: func(c *mc.Ctx) {
			for b := 64 * q; b < 64*(q+1); b++ {
				c06Check(c, c06Case{Kind: "byte", Byte: b})
			}
		}})
	}

	// (i') more rows than processors, for 2, 3 and 4 processors (work shared out by row blocks must reach every
	// row): 3, 5, 7 and 10 rows, aligned and ragged
	ts = append(ts, mc.Task{Name: "manyrows#procs", Run: func(c *mc.Ctx) {
		base := []string{"ACGT-RYn", "TTGCA-ac", "GGCCAANN", "acgtRYKM", "A-C-G-T-", "CATGCATG", "nnnnACGT", "BDHVbdhv", "SWKMswkm", "--ACGT--"}
		for _, n := range []int{3, 5, 7, 10} {
			for _, procs := range []int{1, 2, 3, 4} {
				c06Check(c, c06Case{Kind: "aln", Seqs: base[:n], Procs: procs})
				ragged := make([]string, n)
				for i := range ragged {
					ragged[i] = base[i][:2+(i*3)%7] // the first row is not the longest
				}
				c06Check(c, c06Case{Kind: "bag", Seqs: ragged, Procs: procs})
			}
		}
	}})

	// (i'') every length 7..80 and around 128, 256, 1024, 4096 (code that handles several bytes per step and a
	// tail, or switches path above a size): rows cycling through the 35 symbols of the alphabet from three
	// starting points, alone and as a 2-row alignment (second row shifted by 11 symbols)
	ts = append(ts, mc.Task{Name: "length-sweep", Run: func(c *mc.Ctx) {
		var lens []int
		for l := 7; l <= 80; l++ {
			lens = append(lens, l)
		}
		for _, b := range []int{128, 256, 1024, 4096} {
			for d := -1; d <= 2; d++ {
				lens = append(lens, b+d)
			}
		}
		const sym = "ACGTRYSWKMBDHVNacgtryswkmbdhvn-.*" // no U: the strand operations refuse nothing here
		for _, l := range lens {
			for _, off := range []int{0, 5, 17} {
				r1, r2 := make([]byte, l), make([]byte, l)
				for j := range r1 {
					r1[j] = sym[(j+off)%len(sym)]
					r2[j] = sym[(j*3+off+11)%len(sym)]
				}
				c06Check(c, c06Case{Kind: "row", Seqs: []string{string(r1)}})
				c06Check(c, c06Case{Kind: "aln", Seqs: []string{string(r1), string(r2)}})
				if l >= 1024 && off == 5 {
					for _, procs := range []int{2, 3, 8} {
						c06Check(c, c06Case{Kind: "aln", Seqs: []string{string(r1), string(r2), string(r1[:l/2]) + string(r2[l/2:])}, Procs: procs})
					}
				}
			}
			if c.Expired() {
				return
			}
		}
	}})

	// (ii) one row over the full alphabet, then longer rows over the 8-symbol alphabet
	row := func(c *mc.Ctx, s []byte) { c06Check(c, c06Case{Kind: "row", Seqs: []string{string(s)}}) }
	for l := 0; l <= 4; l++ {
		ts = c06PrefixTasks(ts, "row", c06Alpha35, l, max(0, l-3), row)
	}
	longMax := 6
	if thorough {
		longMax = 7
	}
	for l := 5; l <= longMax; l++ {
		ts = c06PrefixTasks(ts, "longrow", c06Alpha8, l, l-5, row)
	}

	// (iii) alignments of 2 and 3 rows
	aln := func(n int) func(*mc.Ctx, []byte) {
		return func(c *mc.Ctx, s []byte) {
			L := len(s) / n
			seqs := make([]string, n)
			for i := range seqs {
				seqs[i] = string(s[i*L : (i+1)*L])
			}
			c06Check(c, c06Case{Kind: "aln", Seqs: seqs})
		}
	}
	for L := 1; L <= 3; L++ {
		ts = c06PrefixTasks(ts, "aln2", c06Alpha8, 2*L, max(0, 2*L-5), aln(2))
	}
	for L := 1; L <= 2; L++ {
		ts = c06PrefixTasks(ts, "aln3", c06Alpha8, 3*L, max(0, 3*L-4), aln(3))
	}
	if thorough {
		ts = c06PrefixTasks(ts, "aln2small", c06Alpha5, 8, 2, aln(2))
		ts = c06PrefixTasks(ts, "aln3small", c06Alpha5, 9, 3, aln(3))
	}

	// (iv) ragged sequence sets: every string of total length T cut into n sequences in every way
	bag := func(n int) func(*mc.Ctx, []byte) {
		return func(c *mc.Ctx, s []byte) {
			c06Split(string(s), n, func(parts []string) { c06Check(c, c06Case{Kind: "bag", Seqs: parts}) })
		}
	}
	// (v) sequence sets holding bytes >= 0x80: case folding and un-aligning only
	ts = append(ts, mc.Task{Name: "hibytes#all", Run: func(c *mc.Ctx) {
		const hb = "Ac-\xe9\xc3\xa9"
		for T := 1; T <= 4; T++ {
			forEachStringLen(hb, T, nil, func(s []byte) bool {
				hi := false
				for _, b := range s {
					hi = hi || b >= 0x80
				}
				if hi {
					for n := 1; n <= 2; n++ {
						c06Split(string(s), n, func(parts []string) {
							hx := make([]string, len(parts))
							for i, p := range parts {
								hx[i] = hex.EncodeToString([]byte(p))
							}
							c06Check(c, c06Case{Kind: "hibytes", Hex: hx})
						})
					}
				}
				return true
			})
		}
	}})
	bag2Max, bag3Max := 5, 4
	if thorough {
		bag2Max, bag3Max = 6, 5
	}
	for T := 0; T <= bag2Max; T++ {
		ts = c06PrefixTasks(ts, "bag2", c06Alpha10, T, max(0, T-4), bag(2))
	}
	for T := 0; T <= bag3Max; T++ {
		ts = c06PrefixTasks(ts, "bag3", c06Alpha10, T, max(0, T-3), bag(3))
	}
	return ts
}

// ---- the check

type c06Checker struct {
	c    *mc.Ctx
	cs   c06Case
	seqs []string
}

func (k *c06Checker) viol(op, clause, desc string) {
	k.c.Violation("C06/"+op+"/"+clause, fmt.Sprintf("%s: %s: case %s", op, desc, jsonStr(k.cs)), k.cs)
}

// call runs one call into goalign; a panic is a violation of op.
func (k *c06Checker) call(op string, f func()) bool {
	k.c.Count("goalign_calls", 1)
	if pn, msg := mc.Guard(f); pn {
		k.viol(op, "panic/"+mc.PanicSite(msg), msg)
		return false
	}
	return true
}

func (k *c06Checker) build() align.SeqBag {
	var sb align.SeqBag
	switch k.cs.Kind {
	case "byte":
		sb = align.NewAlign(align.NUCLEOTIDS)
	case "bag":
		sb = align.NewSeqBag(align.UNKNOWN)
	default:
		sb = align.NewAlign(align.UNKNOWN)
	}
	for i, s := range k.seqs {
		if err := sb.AddSequence(rowNames[i], s, ""); err != nil {
			// every input built here (equal-length rows for an alignment, any rows for a sequence set, rows of length 0
			// included) is accepted by the tree this framework was written against; a refusal means the container no
			// longer holds an input the property quantifies over
			k.viol("input", "refused-by-the-container", fmt.Sprintf("AddSequence(%q, %q) fails: %v", rowNames[i], s, err))
			return nil
		}
	}
	if k.cs.Kind != "byte" {
		sb.AutoAlphabet()
	}
	return sb
}

// diff observes sb and compares it with want (rows, names, and Length() of an alignment).
func (k *c06Checker) diff(sb align.SeqBag, want rows, selected []bool) (clause, desc string) {
	got := readRows(sb)
	clause = c06Diff(got, want, selected)
	if al, ok := sb.(align.Alignment); ok && clause == "" && al.Length() != len(want[0].Seq) {
		return "length", fmt.Sprintf("Length()=%d, rows have %d", al.Length(), len(want[0].Seq))
	}
	if clause != "" {
		desc = fmt.Sprintf("got %v want %v", got, want)
		return
	}
	// the transformed rows are what a lookup by name and an iteration give, too (row names are distinct)
	for i, r := range got {
		if byName, ok := sb.GetSequence(r.Name); !ok || byName != r.Seq {
			return "lookup-by-name", fmt.Sprintf("row %d (%s) reads %q by index and %q (found=%v) by name", i, r.Name, r.Seq, byName, ok)
		}
	}
	i := 0
	sb.Iterate(func(name string, sequence string) bool {
		if i < len(got) && (name != got[i].Name || sequence != got[i].Seq) && clause == "" {
			clause, desc = "iteration", fmt.Sprintf("row %d reads %v by index and %s=%s by iteration", i, got[i], name, sequence)
		}
		i++
		return false
	})
	return
}

// judge applies the verdict to the outcome of a strand transform; true means
// the result was determined and is correct.
func (k *c06Checker) judge(op string, verdict int, err error, diff func() (string, string)) bool {
	switch verdict {
	case c06MustFail:
		if err == nil {
			k.viol(op, "non-nucleotide-accepted", "no error although a residue is not a nucleotide symbol")
		} else {
			k.c.Outcome(op + ":error-non-nucleotide")
		}
		return false
	case c06Ambiguous:
		k.c.Skip(c06SkipXO)
		return false
	}
	if err != nil {
		k.viol(op, "unexpected-error", err.Error())
		return false
	}
	if clause, desc := diff(); clause != "" {
		k.viol(op, clause, desc)
		return false
	}
	k.c.Outcome(op + ":ok")
	return true
}

// sequenceOps: align.Reverse / align.Complement and the Sequence methods on one string.
func (k *c06Checker) sequenceOps(s string) {
	rev := c06Reverse(s)
	b := []byte(s)
	if k.call("Reverse", func() { align.Reverse(b) }) && string(b) != rev {
		k.viol("Reverse", "order", fmt.Sprintf("got %q want %q", b, rev))
	}
	sq := align.NewSequence("s", []byte(s), "")
	if k.call("Sequence.Reverse", func() { sq.Reverse() }) && sq.Sequence() != rev {
		k.viol("Sequence.Reverse", "order", fmt.Sprintf("got %q want %q", sq.Sequence(), rev))
	}

	comp, verdict := c06ComplementString(s)
	positionwise := func(got string) func() (string, string) {
		return func() (string, string) {
			if got != comp {
				return "iupac-complement", fmt.Sprintf("got %q want %q", got, comp)
			}
			return "", ""
		}
	}
	var err error
	b = []byte(s)
	if k.call("Complement", func() { err = align.Complement(b) }) {
		k.judge("Complement", verdict, err, positionwise(string(b)))
	}
	sq = align.NewSequence("s", []byte(s), "")
	if k.call("Sequence.Complement", func() { err = sq.Complement() }) {
		k.judge("Sequence.Complement", verdict, err, positionwise(sq.Sequence()))
	}
}

// strand applies a reverse-complement call twice to a fresh copy of the
// input: the first result must be want, the second the input again.
func (k *c06Checker) strand(op string, apply func(align.SeqBag) error, verdict int, in, want rows, selected []bool, selectedHasU bool) {
	sb := k.build()
	if sb == nil {
		return
	}
	var err error
	if !k.call(op, func() { err = apply(sb) }) {
		return
	}
	if !k.judge(op, verdict, err, func() (string, string) { return k.diff(sb, want, selected) }) {
		return
	}
	if !k.call(op, func() { err = apply(sb) }) {
		return
	}
	if err != nil {
		k.viol(op, "involution-error", err.Error())
		return
	}
	if selectedHasU {
		k.c.Skip(c06SkipU)
		return
	}
	if clause, desc := k.diff(sb, in, selected); clause != "" {
		k.viol(op, "involution", "applied twice: "+desc)
	}
}

// fold applies a case transform twice to a fresh copy of the input: both
// results must be want.
func (k *c06Checker) fold(op string, apply func(align.SeqBag), in, want rows) {
	sb := k.build()
	if sb == nil {
		return
	}
	if !k.call(op, func() { apply(sb) }) {
		return
	}
	if clause, desc := k.diff(sb, want, nil); clause != "" {
		k.viol(op, clause, desc)
		return
	}
	if !k.call(op, func() { apply(sb) }) {
		return
	}
	if clause, desc := k.diff(sb, want, nil); clause != "" {
		k.viol(op, "idempotence", "applied twice: "+desc)
		return
	}
	if sameRows(in, want) {
		k.c.Outcome(op + ":nothing-to-fold")
	} else {
		k.c.Outcome(op + ":folded")
	}
	// a row added after a conversion is converted by the next one: the first row as given, and its case
	// inverted, are added under new names and the same conversion applied again
	if len(in) == 0 {
		return
	}
	swapped := c06MapBytes(in[0].Seq, func(b byte) byte {
		if 'a' <= b && b <= 'z' {
			return b - 32
		}
		if 'A' <= b && b <= 'Z' {
			return b + 32
		}
		return b
	})
	var err1, err2 error
	if !k.call(op, func() {
		err1 = sb.AddSequence("zz_added_1", in[0].Seq, "")
		err2 = sb.AddSequence("zz_added_2", swapped, "")
		apply(sb)
	}) {
		return
	}
	if err1 != nil || err2 != nil {
		k.viol(op, "row-added-after-conversion/refused", fmt.Sprint(err1, err2))
		return
	}
	want2 := append(want.clone(), row{"zz_added_1", want[0].Seq}, row{"zz_added_2", want[0].Seq})
	if clause, desc := k.diff(sb, want2, nil); clause != "" {
		k.viol(op, "row-added-after-conversion/"+clause, desc)
	}
}

// hiBytes: case folding and un-aligning of sequence sets that hold bytes >= 0x80 (not residues of any
// alphabet, but sequence sets are arbitrary byte rows).  Such a byte has no ASCII case: what the
// transform does to it is not compared (goalign folds it as a Latin-1 letter), but the row keeps its
// length, every 7-bit byte is folded exactly, and a second application changes nothing.
func (k *c06Checker) hiBytes() {
	in := namedRows(k.seqs...)
	for _, op := range []string{"ToUpper", "ToLower", "Unalign"} {
		sb := align.SeqBag(align.NewSeqBag(align.UNKNOWN))
		for i, s := range k.seqs {
			if err := sb.AddSequence(rowNames[i], s, ""); err != nil {
				k.viol("input", "refused-by-the-container", fmt.Sprintf("AddSequence(%q, %x) fails: %v", rowNames[i], s, err))
				return
			}
		}
		apply := func() {
			switch op {
			case "ToUpper":
				sb.ToUpper()
			case "ToLower":
				sb.ToLower()
			case "Unalign":
				sb = sb.Unalign()
			}
		}
		if !k.call(op, apply) {
			return
		}
		got := readRows(sb)
		if len(got) != len(in) {
			k.viol(op, "row-count", fmt.Sprintf("%d rows from %d", len(got), len(in)))
			return
		}
		for i, r := range in {
			want := r.Seq
			switch op {
			case "ToUpper":
				want = c06MapBytes(want, upper)
			case "ToLower":
				want = c06MapBytes(want, c06Lower)
			case "Unalign":
				want = ungap(want)
			}
			if got[i].Name != r.Name || len(got[i].Seq) != len(want) {
				k.viol(op, "row-length", fmt.Sprintf("row %q becomes %q (expected %d bytes)", r.Seq, got[i].Seq, len(want)))
				return
			}
			for j := 0; j < len(want); j++ {
				if want[j] < 0x80 && got[i].Seq[j] != want[j] {
					k.viol(op, "residues", fmt.Sprintf("row %q becomes %q, expected %q at the 7-bit positions", r.Seq, got[i].Seq, want))
					return
				}
				if want[j] >= 0x80 && got[i].Seq[j] < 0x80 {
					k.viol(op, "residues", fmt.Sprintf("row %q becomes %q: a byte >= 0x80 turned into a 7-bit character", r.Seq, got[i].Seq))
					return
				}
			}
		}
		first := got
		if !k.call(op, apply) {
			return
		}
		if again := readRows(sb); !sameRows(again, first) {
			k.viol(op, "idempotence", fmt.Sprintf("applied twice: %v then %v", first, again))
			return
		}
		k.c.Outcome(op + ":hibytes-ok")
	}
	k.c.Nontrivial("hibytes|" + strings.Join(k.seqs, "|"))
}

// bagOps runs every SeqBag-level transform of the property on the case.
// Each transform starts from a fresh copy of the input.  The last clause of
// the statement (de-gapped content preserved) follows from the exact
// comparisons made here and is not checked separately.
func (k *c06Checker) bagOps() {
	n := len(k.seqs)
	in := namedRows(k.seqs...)
	rc, up, lo, un := in.clone(), in.clone(), in.clone(), in.clone()
	rowVerdict := make([]int, n)
	hasU := make([]bool, n)
	// A set that is not detected as nucleotide must be refused whatever rows
	// are named ("if the alphabet is not NUCLEOTIDES: returns an error"); the
	// byte kind bypasses detection on purpose.
	gate := c06Defined
	ascii := true
	for i, s := range k.seqs {
		var comp string
		comp, rowVerdict[i] = c06ComplementString(s)
		rc[i].Seq = c06Reverse(comp)
		up[i].Seq = c06MapBytes(s, upper)
		lo[i].Seq = c06MapBytes(s, c06Lower)
		un[i].Seq = ungap(s)
		hasU[i] = strings.ContainsAny(s, "Uu")
		if k.cs.Kind != "byte" && !couldBeNt(s) {
			gate = c06MustFail
		}
		for j := 0; j < len(s); j++ {
			ascii = ascii && s[j] < 0x80
		}
	}

	// ReverseComplementSequences for every subset of {row names} + {unknown name}
	all, allHasU := gate, false
	for mask := 0; mask < 1<<(n+1); mask++ {
		var names []string
		if mask>>n&1 == 1 {
			names = append(names, c06Unknown)
		}
		selected := make([]bool, n)
		want := in.clone()
		verdict, selectedHasU := gate, false
		for i := 0; i < n; i++ {
			if mask>>i&1 == 1 {
				names = append(names, in[i].Name)
				selected[i] = true
				want[i] = rc[i]
				verdict = max(verdict, rowVerdict[i])
				selectedHasU = selectedHasU || hasU[i]
			}
		}
		all, allHasU = max(all, verdict), allHasU || selectedHasU
		k.strand("ReverseComplementSequences", func(sb align.SeqBag) error { return sb.ReverseComplementSequences(names...) },
			verdict, in, want, selected, selectedHasU)
	}
	k.strand("ReverseComplement", func(sb align.SeqBag) error { return sb.ReverseComplement() }, all, in, rc, nil, allHasU)

	if ascii {
		k.fold("ToUpper", func(sb align.SeqBag) { sb.ToUpper() }, in, up)
		k.fold("ToLower", func(sb align.SeqBag) { sb.ToLower() }, in, lo)
	} else {
		k.c.Skip(c06SkipNonASCII)
	}

	if sb := k.build(); sb != nil {
		var unaligned align.SeqBag
		if k.call("Unalign", func() { unaligned = sb.Unalign() }) {
			var again align.SeqBag
			if clause, desc := k.diff(unaligned, un, nil); clause != "" {
				k.viol("Unalign", clause, desc)
			} else if clause, desc := k.diff(sb, in, nil); clause != "" {
				k.viol("Unalign", "source-changed/"+clause, "the alignment Unalign was called on: "+desc)
			} else if !k.call("Unalign", func() { again = sb.Unalign() }) {
			} else if clause, desc := k.diff(again, un, nil); clause != "" {
				k.viol("Unalign", "second-call/"+clause, desc)
			} else {
				if sameRows(in, un) {
					k.c.Outcome("Unalign:no-gap")
				} else {
					k.c.Outcome("Unalign:gaps-removed")
				}
				// the un-aligned set owns its rows: case folding and reverse-complementing one of the two
				// objects afterwards must not show in the other one
				if ascii {
					if k.call("Unalign+fold-result", func() { unaligned.ToLower() }) {
						if clause, desc := k.diff(sb, in, nil); clause != "" {
							k.viol("Unalign", "result-shares-rows-with-source/ToLower/"+clause, "the alignment Unalign was called on, after ToLower on the un-aligned set: "+desc)
						}
					}
					if k.call("Unalign+fold-result", func() { unaligned.ToUpper() }) {
						if clause, desc := k.diff(sb, in, nil); clause != "" {
							k.viol("Unalign", "result-shares-rows-with-source/ToUpper/"+clause, "the alignment Unalign was called on, after ToUpper on the un-aligned set: "+desc)
						}
					}
					if k.call("Unalign+fold-source", func() { sb.ToLower(); sb.ToUpper(); _ = sb.ReverseComplement() }) {
						if clause, desc := k.diff(again, un, nil); clause != "" {
							k.viol("Unalign", "source-shares-rows-with-result/"+clause, "the set un-aligned before, after ToLower, ToUpper, ReverseComplement on the alignment: "+desc)
						}
					}
				}
			}
		}
	}

	// two operations on one object: case folding, then a strand or gap operation on it (and the reverse
	// order); reverse-complementing preserves case, so the expected rows are those of the model composed
	if ascii && all == c06Defined && !allHasU {
		for _, fc := range []struct {
			name  string
			apply func(align.SeqBag)
			f     func(byte) byte
		}{{"ToUpper", func(sb align.SeqBag) { sb.ToUpper() }, upper}, {"ToLower", func(sb align.SeqBag) { sb.ToLower() }, c06Lower}} {
			for i := -1; i < n; i++ { // -1: all rows
				want := in.clone()
				for r := range want {
					want[r].Seq = c06MapBytes(in[r].Seq, fc.f)
					if i < 0 || i == r {
						want[r].Seq = c06MapBytes(rc[r].Seq, fc.f)
					}
				}
				for _, order := range []string{"fold-first", "strand-first"} {
					sb := k.build()
					if sb == nil {
						return
					}
					var err error
					op := fc.name + "+ReverseComplement"
					strandOp := func() {
						if i < 0 {
							err = sb.ReverseComplement()
						} else {
							err = sb.ReverseComplementSequences(in[i].Name)
						}
					}
					if !k.call(op, func() {
						if order == "fold-first" {
							fc.apply(sb)
							strandOp()
						} else {
							strandOp()
							fc.apply(sb)
						}
					}) {
						return
					}
					if err != nil {
						k.viol(op, "unexpected-error/"+order, err.Error())
						continue
					}
					if clause, desc := k.diff(sb, want, nil); clause != "" {
						k.viol(op, "composition/"+order+"/"+clause, desc)
					}
				}
			}
			// fold, then un-align
			if sb := k.build(); sb != nil {
				var u align.SeqBag
				if k.call(fc.name+"+Unalign", func() { fc.apply(sb); u = sb.Unalign() }) {
					want := un.clone()
					for r := range want {
						want[r].Seq = c06MapBytes(un[r].Seq, fc.f)
					}
					if clause, desc := k.diff(u, want, nil); clause != "" {
						k.viol(fc.name+"+Unalign", "composition/"+clause, desc)
					}
				}
			}
		}
		k.c.Outcome("composition:two-operations")
	}

	changedByStrand := all == c06Defined && !sameRows(in, rc)
	if changedByStrand || !sameRows(in, up) || !sameRows(in, lo) || !sameRows(in, un) {
		k.c.Nontrivial(k.cs.Kind + "|" + fmt.Sprint(k.cs.Byte) + "|" + strings.Join(k.cs.Seqs, "/"))
	}
	if changedByStrand && n >= 2 && !sameRows(in, un) {
		k.c.Sample(map[string]any{"case": k.cs, "revcomp": rc, "unaligned": un})
	}
}

func c06Check(c *mc.Ctx, cs c06Case) {
	c.Eval()
	if cs.Procs > 0 {
		defer runtime.GOMAXPROCS(runtime.GOMAXPROCS(cs.Procs))
	}
	k := &c06Checker{c: c, cs: cs, seqs: cs.Seqs}
	switch cs.Kind {
	case "hibytes":
		k.seqs = nil
		for _, h := range cs.Hex {
			b, err := hex.DecodeString(h)
			if err != nil {
				c.Fatal("bad hex row in %s", jsonStr(cs))
				return
			}
			k.seqs = append(k.seqs, string(b))
		}
		k.hiBytes()
		return
	case "byte":
		k.seqs = []string{string([]byte{byte(cs.Byte)})}
		k.sequenceOps(k.seqs[0])
	case "row":
		k.sequenceOps(k.seqs[0])
	}
	k.bagOps()
}

func init() {
	mc.Register(&mc.Prop{
		ID:    "C06",
		Level: "exploration",
		Rule: cliStreamRule[1:] + "Command line: goalign revcomp (no name, known and unknown names in several orders), toupper, tolower, unalign on 3 alignments, and revcomp / toupper / tolower --unaligned on 5 sets (2 of them ragged): what is written must be what the library calls give. (Free-running complement under the race detector: 8 goroutines doing this property's operations on objects of their own must get the values the same work gives alone.)  " + "(on every case also: two operations on one object - ToUpper/ToLower then ReverseComplement / ReverseComplementSequences(one row) / Unalign, and the strand operation first - against the composed model; the alignment Unalign was called on is unchanged, a second Unalign gives the same rows, and case folding / reverse-complementing the un-aligned set or the alignment afterwards does not show in the other object; every observed row is the same by index, by name and by iteration;) (sequence sets of 1-2 rows, total length <= 4, over {A,c,-,0xE9,0xC3,0xA9} with at least one byte >= 0x80: ToUpper/ToLower/Unalign keep row lengths, fold the 7-bit bytes exactly and are idempotent;) (also: rows of every length 7..80 and within -1..+2 of 128, 256, 1024, 4096 cycling through the alphabet, alone and as 2-row alignments;) bounded-exhaustive enumeration; on every case: ReverseComplement and ReverseComplementSequences for every subset of {row names} + {one unknown name}, each applied twice (involution), " +
			"ToUpper and ToLower each applied twice (idempotence) and once more after the first row, as given and with its case inverted, was added under two new names (rows added after a conversion are converted by the next one), Unalign; results compared row by row (names, order, residues, Length()) with the IUPAC complement derived from base sets. Cases: " +
			"(i) all 256 byte values as a 1x1 alignment with the alphabet forced to nucleotide, also through align.Complement/Reverse and Sequence.Complement/Reverse; " +
			"(ii) every single row of length 0..4 over the 35 symbols ACGTRYSWKMBDHVN acgtryswkmbdhvn - . * U u and of length 5..6 (quick) / 5..7 (thorough) over {A,c,K,m,B,-,.,*}, also through the Sequence-level functions; " +
			"(iii) every 2-row alignment of length 1..3 and every 3-row alignment of length 1..2 over {A,c,K,m,B,-,.,*}; thorough adds every 2-row alignment of length 4 and every 3-row alignment of length 3 over {A,c,K,m,-}; " +
			"(iv) every ragged sequence set (SeqBag) of 2 sequences with total length 0..5 (quick) / 0..6 (thorough) and of 3 sequences with total length 0..4 / 0..5 over {A,c,K,m,B,-,.,*,L,q}. " +
			"A case is non-trivial when the expected result of at least one transform (reverse complement where defined, upper, lower, un-align) differs from the input; distinct = distinct input.",
		Assumptions: []string{
			"the complement of an IUPAC ambiguity code is the code of the Watson-Crick partners of its base set; U complements to A; - . * are their own complement",
			"a sequence set holding a symbol that goalign's documented alphabet detection does not accept as nucleotide must be refused by the strand transforms (docs: 'if the input alignment is not nucleotides, then returns an error'); its state after the error is not examined",
			"X, ? and O (nucleotide-detected, no IUPAC complement) and the case of bytes >= 0x80 are not determined by the statement and are skipped",
			"a named subset is given once per name, the unknown name first",
		},
		// free-running complement: goroutines that each own their objects must get what they get alone (harness/racepass)
		Post:  func(m *mc.Master) { m.RacePass("own-strand") },
		Tasks: func(tier string) []mc.Task { return append(append(c06Tasks(tier), cliStreamTasks("C06")...), c06CLITasks()...) },
		Replay: func(c *mc.Ctx, payload json.RawMessage) {
			if cliStreamReplay(c, payload) || c06CLIReplay(c, payload) {
				return
			}
			var cs c06Case
			if err := json.Unmarshal(payload, &cs); err != nil {
				c.Fatal("bad payload: %v", err)
				return
			}
			c06Check(c, cs)
		},
		Vacuity: func(tier string, t *mc.Totals) error {
			if t.Evaluations < 2000000 || len(t.OutcomeSet) < 10 {
				return fmt.Errorf("only %d evaluations / %d outcome classes", t.Evaluations, len(t.OutcomeSet))
			}
			return nil
		},
	})
}
