package props

import (
	"encoding/json"
	"fmt"
	"strconv"
	"strings"

	"verif/harness/mc"

	"github.com/evolbioinfo/goalign/io/fasta"
)

// Command-line layer of C15: goalign mask must write what the library calls it documents give for the
// same options - a window (-s/-l), a list of positions (--pos, each a window of length 1), rare residues
// (--unique --at-most); with --ref-seq the window is first converted with RefCoordinates.  The library calls
// are judged by the oracle of c15.go; here command and library are compared with each other for every
// option combination on a bounded family of alignments.

type c15CLICase struct {
	CLI    bool     `json:"cli_mask"`
	Alpha  string   `json:"alpha"`
	Seqs   []string `json:"seqs"`
	Ref    string   `json:"ref,omitempty"`
	Mode   string   `json:"mode"` // window | pos | unique
	Start  int      `json:"start,omitempty"`
	Len    int      `json:"len,omitempty"`
	Pos    []int    `json:"pos,omitempty"`
	AtMost int      `json:"at_most,omitempty"`
	Repl   string   `json:"repl,omitempty"` // "" = flag not given (AMBIG)
	NoGap  bool     `json:"nogap,omitempty"`
	NoRef  bool     `json:"noref,omitempty"`
	// Pad (pos): the positions are written zero-padded to this width ("010" is ten)
	Pad int `json:"pad,omitempty"`
}

func c15CheckCLI(c *mc.Ctx, box *cliBox, cs c15CLICase) {
	c.Eval()
	viol := func(clause, desc string) {
		c.Violation("C15/cli-mask/"+cs.Mode+"/"+clause, fmt.Sprintf("%s: case %s", desc, jsonStr(cs)), cs)
	}
	alphabet := c15Alphabet(cs.Alpha)
	al, err := mkAlign(alphabet, namedRows(cs.Seqs...))
	if err != nil {
		c.Fatal("cannot build %s: %v", jsonStr(cs), err)
		return
	}
	repl := cs.Repl
	if repl == "" {
		repl = "AMBIG"
	}
	// the library calls, as the command documents them
	var lerr error
	window := func(start, length int) {
		if lerr != nil {
			return
		}
		if cs.Ref != "" {
			if start, length, lerr = al.RefCoordinates(cs.Ref, start, length); lerr != nil {
				return
			}
		}
		lerr = al.Mask(cs.Ref, start, length, repl, cs.NoGap, cs.NoRef)
	}
	if pn, _ := mc.Guard(func() {
		switch cs.Mode {
		case "window":
			window(cs.Start, cs.Len)
		case "pos":
			// the requested positions are positions of the reference AS GIVEN: they are converted to columns
			// of the input before anything is masked (masking may put a gap into the reference row itself)
			cols := make([]int, len(cs.Pos))
			for i, p := range cs.Pos {
				cols[i] = p
				if cs.Ref != "" {
					if cols[i], _, lerr = al.RefCoordinates(cs.Ref, p, 1); lerr != nil {
						return
					}
				}
			}
			for _, col := range cols {
				if lerr == nil {
					lerr = al.Mask(cs.Ref, col, 1, repl, cs.NoGap, cs.NoRef)
				}
			}
		case "unique":
			lerr = al.MaskOccurences(cs.Ref, cs.AtMost, repl)
		}
	}); pn {
		return // reported by the library cases
	}
	want := fasta.WriteAlignment(al)

	box.drop("out.fa")
	if !box.put(c, "in.fa", cliFasta(rowNames, cs.Seqs)) {
		return
	}
	args := []string{"mask", "-i", "@in.fa", "--alphabet", cs.Alpha, "-o", box.path("out.fa")}
	switch cs.Mode {
	case "window":
		args = append(args, "-s", strconv.Itoa(cs.Start), "-l", strconv.Itoa(cs.Len))
	case "pos":
		var ps []string
		for _, p := range cs.Pos {
			ps = append(ps, fmt.Sprintf("%0*d", cs.Pad, p))
		}
		args = append(args, "--pos", strings.Join(ps, ","))
	case "unique":
		args = append(args, "--unique", "--at-most", strconv.Itoa(cs.AtMost))
	}
	if cs.Ref != "" {
		args = append(args, "--ref-seq", cs.Ref)
	}
	if cs.Repl != "" {
		args = append(args, "--replace="+cs.Repl)
	}
	if cs.NoGap {
		args = append(args, "--no-gaps")
	}
	if cs.NoRef {
		args = append(args, "--no-ref")
	}
	c.Mark(cs)
	cerr, pn, msg, herr := box.run(c, args...)
	if herr {
		return
	}
	if pn {
		viol("panic/"+mc.PanicSite(msg), msg)
		return
	}
	if lerr != nil {
		if cerr == nil {
			got, _ := box.get("out.fa")
			viol("library-error-not-reported", fmt.Sprintf("the library refuses the call (%v); the command succeeds and writes %q", lerr, got))
			return
		}
		c.Outcome("cli-mask:" + cs.Mode + ":refused")
		return
	}
	if cerr != nil {
		viol("command-fails", fmt.Sprintf("goalign %s: %v", strings.Join(args, " "), cerr))
		return
	}
	got, ok := box.get("out.fa")
	if !ok {
		viol("no-output", "the command succeeded without writing its output file")
		return
	}
	c.Nontrivial(jsonStr(cs))
	if got != want {
		viol("output-differs-from-library", fmt.Sprintf("goalign %s writes %q; the library calls with these options give %q", strings.Join(args[1:], " "), got, want))
		return
	}
	c.Outcome("cli-mask:" + cs.Mode + ":same")
}

func c15CLITasks(thorough bool) []mc.Task {
	var ts []mc.Task
	repls := []string{"", "GAP", "MAJ", "Z", "n"}
	for _, alpha := range []string{"nt", "aa"} {
		for _, ref := range []string{"", "a", "b"} {
			for _, repl := range repls {
				alpha, ref, repl := alpha, ref, repl
				if alpha == "aa" && !thorough && (repl == "Z" || repl == "n") {
					continue
				}
				ts = append(ts, mc.Task{Name: fmt.Sprintf("cli-mask#%s/ref=%s/repl=%s", alpha, ref, repl), Run: func(c *mc.Ctx) {
					box := newCLIBox(c, "c15-cli-")
					if box == nil {
						return
					}
					defer box.close()
					L := 3
					if alpha == "aa" && !thorough {
						L = 2
					}
					forEachAlignment("AC-", 2, L, func(seqs []string) bool {
						s := append([]string{}, seqs...)
						for m := 0; m < 4; m++ {
							nogap, noref := m&1 != 0, m&2 != 0
							if noref && ref == "" {
								continue
							}
							for st := 0; st <= L; st++ {
								for ln := 1; ln <= L+1; ln++ {
									c15CheckCLI(c, box, c15CLICase{CLI: true, Alpha: alpha, Seqs: s, Ref: ref, Mode: "window", Start: st, Len: ln, Repl: repl, NoGap: nogap, NoRef: noref})
								}
							}
							for _, ps := range [][]int{{0}, {L - 1}, {0, L - 1}, {L - 1, 0}, {1, 1}, {0, 1}, {1, 0}, {L - 2, L - 1}, {0, 1, L - 1}} {
								c15CheckCLI(c, box, c15CLICase{CLI: true, Alpha: alpha, Seqs: s, Ref: ref, Mode: "pos", Pos: ps, Repl: repl, NoGap: nogap, NoRef: noref})
							}
						}
						for k := 0; k <= 2; k++ {
							c15CheckCLI(c, box, c15CLICase{CLI: true, Alpha: alpha, Seqs: s, Ref: ref, Mode: "unique", AtMost: k, Repl: repl})
						}
						return !c.Expired()
					})
					// positions of two digits, written plainly and zero-padded (as seq -w or printf %03d write them)
					if repl == "" {
						long := []string{"ACACACACACAC", "CACA-ACACA-A"}
						for _, ps := range [][]int{{10, 11}, {8}, {9, 10}, {7, 8, 11}} {
							for _, pad := range []int{0, 2, 3} {
								c15CheckCLI(c, box, c15CLICase{CLI: true, Alpha: alpha, Seqs: long, Ref: ref, Mode: "pos", Pos: ps, Pad: pad})
							}
						}
					}
					// more rows: rare residues need a majority
					for _, s := range [][]string{{"AC-A", "ACCA", "A-CC", "CCCA"}, {"-A-", "-AC", "CA-", "CAA", "-CA"}} {
						for k := 0; k <= 3; k++ {
							c15CheckCLI(c, box, c15CLICase{CLI: true, Alpha: alpha, Seqs: s, Ref: ref, Mode: "unique", AtMost: k, Repl: repl})
						}
						c15CheckCLI(c, box, c15CLICase{CLI: true, Alpha: alpha, Seqs: s, Ref: ref, Mode: "window", Start: 1, Len: 2, Repl: repl, NoGap: true, NoRef: ref != ""})
					}
				}})
			}
		}
	}
	return ts
}

func c15CLIReplay(c *mc.Ctx, payload []byte) bool {
	var cs c15CLICase
	if err := json.Unmarshal(payload, &cs); err != nil || !cs.CLI {
		return false
	}
	box := newCLIBox(c, "c15-cli-")
	if box == nil {
		return true
	}
	defer box.close()
	c15CheckCLI(c, box, cs)
	return true
}
