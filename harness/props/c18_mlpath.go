package props

import (
	"encoding/json"
	"fmt"
	"math"

	"verif/harness/mc"

	"github.com/evolbioinfo/goalign/align"
	"github.com/evolbioinfo/goalign/distance/protein"
	pm "github.com/evolbioinfo/goalign/models/protein"
)

// The second place where goalign computes P(t) of a protein model: the work
// matrix of the ML distance code (distance/protein, pMat).  It has no accessor;
// an overlay-added function of that package (VerifPMat) returns a copy.  Checked
// here: every entry in [0,1] - strictly, a probability of -1e-17 is not one - and
// rows summing to 1, for the seven matrices x model / empirical frequencies x
// gamma off / 0.5, on branch lengths from 1e-8 to 20.

type c18MLCase struct {
	MLPath     bool    `json:"ml_path_pmat"`
	Model      string  `json:"model"`
	ModelFreqs bool    `json:"model_freqs"`
	Alpha      float64 `json:"alpha"`
}

var c18MLModels = map[string]int{"dayhoff": pm.MODEL_DAYHOFF, "jtt": pm.MODEL_JTT, "mtrev": pm.MODEL_MTREV, "lg": pm.MODEL_LG,
	"wag": pm.MODEL_WAG, "hivb": pm.MODEL_HIVB, "ab": pm.MODEL_AB}

func c18MLCheck(c *mc.Ctx, cs c18MLCase) {
	c.Eval()
	viol := func(clause, desc string) {
		c.Violation("C18/protein-"+cs.Model+"/ml-distance-path/"+clause, fmt.Sprintf("%s (model frequencies %v, alpha %v)", desc, cs.ModelFreqs, cs.Alpha), cs)
	}
	al, err := mkAlign(align.AMINOACIDS, namedRows("ARNDCQEGHILKMFPSTWYV", "ARNDCQEGHILKMFPSTWYA", "RRNDCQEGHILKMFPSTWYV"))
	if err != nil {
		c.Fatal("cannot build the alignment: %v", err)
		return
	}
	var m *protein.ProtDistModel
	if pn, msg := mc.Guard(func() {
		if m, err = protein.NewProtDistModel(c18MLModels[cs.Model], cs.ModelFreqs, cs.Alpha > 0, cs.Alpha, false); err == nil {
			err = m.InitModel(al, nil)
		}
	}); pn || err != nil {
		viol("model-refused", fmt.Sprint(msg, err))
		return
	}
	for _, t := range []float64{1e-8, 2e-8, 5e-8, 1e-7, 3e-7, 1e-6, 1e-5, 1e-4, 1e-3, 0.01, 0.1, 0.5, 1, 5, 20} {
		var p []float64
		if pn, msg := mc.Guard(func() { p = protein.VerifPMat(m, t) }); pn {
			viol("panic", msg)
			return
		}
		for i := 0; i < 20; i++ {
			sum := 0.0
			for j := 0; j < 20; j++ {
				v := p[i*20+j]
				if !(v >= 0) || v > 1+1e-12 {
					viol("entry-outside-[0,1]", fmt.Sprintf("P(%g)[%d][%d] = %g", t, i, j, v))
					return
				}
				sum += v
			}
			if math.Abs(sum-1) > 1e-6 {
				viol("row-sum", fmt.Sprintf("row %d of P(%g) sums to %.12g", i, t, sum))
				return
			}
		}
		c.Transition(1)
	}
	c.Nontrivial(jsonStr(cs))
	c.Outcome("ml-path:stochastic")
}

func c18MLTask() mc.Task {
	return mc.Task{Name: "ml-distance-path#pmat", Run: func(c *mc.Ctx) {
		for _, name := range c18ProtNames {
			for _, mf := range []bool{true, false} {
				for _, a := range []float64{0, 0.5} {
					c18MLCheck(c, c18MLCase{MLPath: true, Model: name, ModelFreqs: mf, Alpha: a})
				}
			}
		}
	}}
}

func c18MLReplay(c *mc.Ctx, payload []byte) bool {
	var cs c18MLCase
	if err := json.Unmarshal(payload, &cs); err != nil || !cs.MLPath {
		return false
	}
	c18MLCheck(c, cs)
	return true
}
