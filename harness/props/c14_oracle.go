package props

import (
	"math"
	"sort"
	"strings"

	"github.com/evolbioinfo/goalign/align"
)

// Oracles of C14: every statistic re-computed naively from the columns, from the
// property statement and goalign's documentation only.
//
// Where the statement and the documentation leave a reading open (is `a` the
// same allele as `A`?  is N an allele?  is '.' a character?) the oracle is
// evaluated under EVERY admissible reading; a comparison is made only when all
// readings give the same answer, otherwise the case is skipped and counted.

// c14Reading is one way of reading an under-determined definition.
type c14Reading struct {
	fold  bool // a and A are the same character
	wild  int  // 0: no character is a wildcard; 1: the alphabet's own (N for nt, X for aa); 2: N and X for nt, X for aa
	point bool // '.' is not a character
}

// c14Wild: is c a wildcard under the reading?
func (r c14Reading) isWild(alpha int, c byte) bool {
	if r.fold {
		c = c14Up(c)
	}
	switch r.wild {
	case 1:
		return (alpha == align.NUCLEOTIDS && c == 'N') || (alpha == align.AMINOACIDS && c == 'X')
	case 2:
		return (alpha == align.NUCLEOTIDS && (c == 'N' || c == 'X')) || (alpha == align.AMINOACIDS && c == 'X')
	}
	return false
}

func (r c14Reading) ch(c byte) byte {
	if r.fold {
		return c14Up(c)
	}
	return c
}

// c14Readings builds the product of the free dimensions.
func c14Readings(folds []bool, wilds []int, points []bool) []c14Reading {
	var out []c14Reading
	for _, f := range folds {
		for _, w := range wilds {
			for _, p := range points {
				out = append(out, c14Reading{f, w, p})
			}
		}
	}
	return out
}

var (
	c14Both  = []bool{false, true}
	c14True  = []bool{true}
	c14False = []bool{false}
)

func c14Up(c byte) byte {
	if c >= 'a' && c <= 'z' {
		return c - 32
	}
	return c
}

func c14OwnWild(alpha int) byte {
	if alpha == align.AMINOACIDS {
		return 'X'
	}
	return 'N'
}

func c14Letters(alpha int) string {
	if alpha == align.AMINOACIDS {
		return "ARNDCQEGHILKMFPSTWYV"
	}
	return "ACGT"
}

func c14Len(seqs []string) int {
	if len(seqs) == 0 {
		return 0
	}
	return len(seqs[0])
}

// c14FoldCounts: case-folded counts of column j.
func c14FoldCounts(seqs []string, j int) map[byte]int {
	m := map[byte]int{}
	for _, s := range seqs {
		m[c14Up(s[j])]++
	}
	return m
}

// ---- majority character

const (
	c14MaxNormal   = iota // some character is not excluded: out in Allowed, occur and total determined
	c14MaxFallback        // everything excluded, one kind present: out determined, occur/total not
	c14MaxOpen            // everything excluded, gaps AND Ns present: nothing determined
)

type c14MaxWant struct {
	Mode    int
	Allowed []byte // the characters with the highest count among those not excluded (more than one = tie)
	Occur   int
	Total   int
}

func c14MaxOracle(seqs []string, alpha int, j int, ignGaps, ignNs bool) c14MaxWant {
	cnt := c14FoldCounts(seqs, j)
	wild := c14OwnWild(alpha)
	var w c14MaxWant
	best := 0
	for k, v := range cnt {
		if (ignGaps && k == '-') || (ignNs && k == wild) {
			continue
		}
		w.Total += v
		if v > best {
			best = v
		}
	}
	if best > 0 {
		for k, v := range cnt {
			if (ignGaps && k == '-') || (ignNs && k == wild) {
				continue
			}
			if v == best {
				w.Allowed = append(w.Allowed, k)
			}
		}
		sort.Slice(w.Allowed, func(a, b int) bool { return w.Allowed[a] < w.Allowed[b] })
		w.Occur = best
		return w
	}
	if len(cnt) == 1 {
		w.Mode = c14MaxFallback
		for k := range cnt {
			w.Allowed = []byte{k}
		}
		return w
	}
	w.Mode = c14MaxOpen
	return w
}

// ---- site measures

// c14Entropy: -sum p ln p over the characters of column j; '*' never counts,
// '-' does not when removeGaps.  ok=false when no character counts (NaN expected).
func c14Entropy(seqs []string, j int, removeGaps bool, r c14Reading) (h float64, ok bool) {
	cnt := map[byte]int{}
	tot := 0
	for _, s := range seqs {
		c := s[j]
		if c == '*' || (removeGaps && c == '-') || (r.point && c == '.') {
			continue
		}
		cnt[r.ch(c)]++
		tot++
	}
	if tot == 0 {
		return 0, false
	}
	keys := make([]int, 0, len(cnt))
	for k := range cnt {
		keys = append(keys, int(k))
	}
	sort.Ints(keys)
	for _, k := range keys {
		p := float64(cnt[byte(k)]) / float64(tot)
		h -= p * math.Log(p)
	}
	return h, true
}

// c14Variable: number of sites with at least two different characters, gaps,
// '.' and '*' not taken into account.
func c14Variable(seqs []string, alpha int, r c14Reading) int {
	nb := 0
	for j := 0; j < c14Len(seqs); j++ {
		set := map[byte]bool{}
		for _, s := range seqs {
			c := s[j]
			if c == '-' || c == '.' || c == '*' || r.isWild(alpha, c) {
				continue
			}
			set[r.ch(c)] = true
		}
		if len(set) >= 2 {
			nb++
		}
	}
	return nb
}

// c14Informative: sites with at least two characters occurring at least twice
// each; gaps and wildcards are not characters.
func c14Informative(seqs []string, alpha int, r c14Reading) []int {
	out := []int{}
	for j := 0; j < c14Len(seqs); j++ {
		cnt := map[byte]int{}
		for _, s := range seqs {
			c := s[j]
			if c == '-' || (r.point && c == '.') || r.isWild(alpha, c) {
				continue
			}
			cnt[r.ch(c)]++
		}
		k := 0
		for _, v := range cnt {
			if v >= 2 {
				k++
			}
		}
		if k >= 2 {
			out = append(out, j)
		}
	}
	return out
}

// c14AvgAlleles: (sum over sites of the number of different characters) /
// (number of sites that have one); gaps are not characters.  ok=false: 0/0.
func c14AvgAlleles(seqs []string, alpha int, r c14Reading) (num, den int) {
	for j := 0; j < c14Len(seqs); j++ {
		set := map[byte]bool{}
		for _, s := range seqs {
			c := s[j]
			if c == '-' || c == '*' || (r.point && c == '.') || r.isWild(alpha, c) {
				continue
			}
			set[r.ch(c)] = true
		}
		num += len(set)
		if len(set) > 0 {
			den++
		}
	}
	return
}

// ---- unique gaps / residues

// c14Profile is the oracle's view of a count profile: the rows it was built from.
type c14Profile struct {
	Rows []string
}

func (p *c14Profile) seen(c byte, j int, r c14Reading) bool {
	for _, s := range p.Rows {
		if j < len(s) && r.ch(s[j]) == r.ch(c) {
			return true
		}
	}
	return false
}

// c14GapsUnique: per sequence, gaps that are the only gap of their column;
// gaps at sites where the profile has no gap; both.
func c14GapsUnique(seqs []string, p *c14Profile) (uniq, nw, both []int) {
	n := len(seqs)
	uniq, nw, both = make([]int, n), make([]int, n), make([]int, n)
	for j := 0; j < c14Len(seqs); j++ {
		gaps := 0
		for _, s := range seqs {
			if s[j] == '-' {
				gaps++
			}
		}
		for i, s := range seqs {
			if s[j] != '-' {
				continue
			}
			isNew := p != nil && !p.seen('-', j, c14Reading{})
			if gaps == 1 {
				uniq[i]++
			}
			if isNew {
				nw[i]++
			}
			if gaps == 1 && isNew {
				both[i]++
			}
		}
	}
	return
}

// c14MutsUnique: per sequence, residues (not gaps, not wildcards) that occur
// once in their column; residues not seen at that site in the profile; both.
func c14MutsUnique(seqs []string, alpha int, p *c14Profile, r c14Reading) (uniq, nw, both []int) {
	n := len(seqs)
	uniq, nw, both = make([]int, n), make([]int, n), make([]int, n)
	for j := 0; j < c14Len(seqs); j++ {
		cnt := map[byte]int{}
		for _, s := range seqs {
			cnt[r.ch(s[j])]++
		}
		for i, s := range seqs {
			c := s[j]
			if c == '-' || (r.point && c == '.') || r.isWild(alpha, c) {
				continue
			}
			isNew := p != nil && !p.seen(c, j, r)
			if cnt[r.ch(c)] == 1 {
				uniq[i]++
			}
			if isNew {
				nw[i]++
			}
			if cnt[r.ch(c)] == 1 && isNew {
				both[i]++
			}
		}
	}
	return
}

// ---- differences with the first sequence

// c14Diffs: per non-first sequence, the number of occurrences of every
// (first,other) character pair that differs.
func c14Diffs(seqs []string, alpha int, r c14Reading) (all []string, per []map[string]int) {
	all = []string{}
	seen := map[string]bool{}
	for i := 1; i < len(seqs); i++ {
		m := map[string]int{}
		for j := 0; j < len(seqs[0]); j++ {
			a, b := seqs[0][j], seqs[i][j]
			if r.point && b == '.' {
				continue // '.' = "same as the first sequence"
			}
			if r.ch(a) == r.ch(b) {
				continue
			}
			if r.isWild(alpha, a) || r.isWild(alpha, b) {
				continue
			}
			k := string([]byte{r.ch(a), r.ch(b)})
			m[k]++
			if !seen[k] {
				seen[k] = true
				all = append(all, k)
			}
		}
		per = append(per, m)
	}
	sort.Strings(all)
	return
}

// c14DiffWithFirst: characters identical to the first sequence become '.'.
func c14DiffWithFirst(seqs []string, fold bool) []string {
	out := []string{}
	for i, s := range seqs {
		if i == 0 {
			out = append(out, s)
			continue
		}
		b := []byte(s)
		for j := range b {
			x, y := b[j], seqs[0][j]
			if fold {
				x, y = c14Up(x), c14Up(y)
			}
			if x == y {
				b[j] = '.'
			}
		}
		out = append(out, string(b))
	}
	return out
}

// ---- reference-relative counters

// c14Iupac: the set of bases an upper-case IUPAC nucleotide code stands for
// (bit 0 A, 1 C, 2 G, 3 T); gaps and anything else stand for nothing.
func c14Iupac(c byte) int {
	if 'a' <= c && c <= 'z' {
		c -= 'a' - 'A' // a code stands for the same bases in lower case
	}
	switch c {
	case 'A':
		return 1
	case 'C':
		return 2
	case 'G':
		return 4
	case 'T':
		return 8
	case 'R':
		return 1 | 4
	case 'Y':
		return 2 | 8
	case 'S':
		return 2 | 4
	case 'W':
		return 1 | 8
	case 'K':
		return 4 | 8
	case 'M':
		return 1 | 2
	case 'B':
		return 2 | 4 | 8
	case 'D':
		return 1 | 4 | 8
	case 'H':
		return 1 | 2 | 8
	case 'V':
		return 1 | 2 | 4
	case 'N':
		return 15
	}
	return 0
}

// c14Compatible: same residue, or (nucleotides) ambiguity codes sharing a base.
func c14Compatible(alpha int, a, b byte) bool {
	if a == b {
		return true
	}
	if alpha == align.NUCLEOTIDS {
		return c14Iupac(a)&c14Iupac(b) != 0
	}
	return false
}

// c14NumMutations: positions where the sequence has a residue (no gap, no
// wildcard) that is incompatible with the reference character.  refWildCounts
// is the open reading for proteins: does a residue facing X in the reference count?
func c14NumMutations(alpha int, ref, s string, refWildCounts bool) int {
	nb := 0
	w := c14OwnWild(alpha)
	for i := 0; i < len(s); i++ {
		if s[i] == '-' || s[i] == w {
			continue
		}
		if ref[i] == w && alpha == align.AMINOACIDS && !refWildCounts {
			continue
		}
		if !c14Compatible(alpha, s[i], ref[i]) {
			nb++
		}
	}
	return nb
}

type c14Mut struct {
	Ref byte
	Pos int // number of reference residues before the event
	Alt string
	Ins bool
}

// c14ListMutations walks the pair once: substitutions and deletions position by
// position in reference coordinates, insertions grouped by maximal runs of
// reference gaps.  open=true when a reading is open (an insertion run holding a
// wildcard or interrupted by a gap of the sequence; for proteins a residue
// facing X in the reference).
func c14ListMutations(alpha int, ref, s string) (muts []c14Mut, open bool) {
	w := c14OwnWild(alpha)
	refi := 0
	for i := 0; i < len(s); {
		if ref[i] == '-' {
			j := i
			for j < len(s) && ref[j] == '-' {
				j++
			}
			run := s[i:j]
			ins := strings.ReplaceAll(run, "-", "")
			if ins != "" {
				if strings.IndexByte(ins, w) >= 0 {
					open = true
				}
				if strings.Contains(strings.Trim(run, "-"), "-") {
					open = true
				}
				muts = append(muts, c14Mut{Ref: '-', Pos: refi, Alt: ins, Ins: true})
			}
			i = j
			continue
		}
		switch {
		case s[i] == w:
		case ref[i] == w && alpha == align.AMINOACIDS && s[i] != '-':
			open = true
		case !c14Compatible(alpha, s[i], ref[i]):
			muts = append(muts, c14Mut{Ref: ref[i], Pos: refi, Alt: string(s[i])})
		}
		refi++
		i++
	}
	return
}

// ---- PSSM

// c14PssmKind says how far a PSSM cell is determined.
const (
	c14PssmExact = iota
	c14PssmOpen
)

// c14Pssm: counts (+pseudo count) of the alphabet's letters per column,
// optionally divided by the column total (frequency), further by the uniform
// frequency, optionally log2.  A column holding anything but the alphabet's
// letters leaves the frequency denominator open (sequences vs letters).
func c14Pssm(seqs []string, alpha int, norm int, logv bool, pseudo float64) (want map[byte][]float64, openCol []bool, determined bool) {
	letters := c14Letters(alpha)
	L := c14Len(seqs)
	n := float64(len(seqs))
	if norm != align.PSSM_NORM_NONE && norm != align.PSSM_NORM_FREQ && norm != align.PSSM_NORM_UNIF {
		return nil, nil, false
	}
	want = map[byte][]float64{}
	openCol = make([]bool, L)
	for j := 0; j < L; j++ {
		for _, s := range seqs {
			if strings.IndexByte(letters, c14Up(s[j])) < 0 && norm != align.PSSM_NORM_NONE {
				openCol[j] = true
			}
		}
	}
	for k := 0; k < len(letters); k++ {
		c := letters[k]
		v := make([]float64, L)
		for j := 0; j < L; j++ {
			cnt := 0.0
			for _, s := range seqs {
				if c14Up(s[j]) == c {
					cnt++
				}
			}
			x := cnt + pseudo
			switch norm {
			case align.PSSM_NORM_FREQ:
				x = x / (n + float64(len(letters))*pseudo)
			case align.PSSM_NORM_UNIF:
				x = x / (n + float64(len(letters))*pseudo) * float64(len(letters))
			}
			if logv {
				x = math.Log2(x)
			}
			v[j] = x
		}
		want[c] = v
	}
	return want, openCol, true
}

// c14Close: equal up to 1e-12 (relative for large values); NaN equals NaN, infinities by sign.
func c14Close(a, b float64) bool {
	if math.IsNaN(a) || math.IsNaN(b) {
		return math.IsNaN(a) && math.IsNaN(b)
	}
	if math.IsInf(a, 0) || math.IsInf(b, 0) {
		return a == b
	}
	d := math.Abs(a - b)
	return d <= 1e-12 || d <= 1e-12*math.Max(math.Abs(a), math.Abs(b))
}
