package props

import (
	"bytes"
	"encoding/json"
	"errors"
	"fmt"
	"math"
	"runtime"
	"strings"

	"verif/harness/mc"

	"github.com/evolbioinfo/goalign/align"
	"github.com/evolbioinfo/goalign/distance/dna"
	"github.com/evolbioinfo/goalign/verifrt/vrt"
)

// C08 — distances depend only on column content, not on order, strand, threads or schedule.
//
// Part "rel":   metamorphic relations on a bounded-exhaustive corpus of small alignments.
// Part "sched": every interleaving of the real DistMatrix goroutines (producer, workers,
//               mutex, WaitGroup) inside a preemption bound, each checked for result
//               equality, deadlock, channel/WaitGroup misuse and (vector clocks) data races.
// Part "fault": the same exploration with a model that fails at a chosen call.

var c08Models = []string{"rawdist", "pdist", "jc", "k2p", "f81", "f84", "tn93"}

type c08Case struct {
	Kind   string   `json:"kind"` // rel | sched | fault
	Seqs   []string `json:"seqs"`
	Model  string   `json:"model"`
	RmGaps bool     `json:"rmgaps,omitempty"`
	GapMut int      `json:"gapmut,omitempty"`
	RmAmb  bool     `json:"rmamb,omitempty"` // pdist: ambiguous positions removed from the normalisation
	// Shared: one model value serves every DistMatrix call of the case (as build distboot does for its
	// replicates); RangeAll: the calls use the range mode with both ranges = all rows
	Alpha    float64     `json:"alpha,omitempty"` // > 0: gamma-distributed rates with this shape
	Shared   bool        `json:"shared_model,omitempty"`
	RangeAll bool        `json:"range_all,omitempty"`
	Cpus     int         `json:"cpus,omitempty"`
	Ranges   []int       `json:"ranges,omitempty"`  // r1min r1max r2min r2max
	FailAt   string      `json:"fail_at,omitempty"` // "dist" | "seq"
	FailIdx  int         `json:"fail_idx,omitempty"`
	Bound    int         `json:"bound,omitempty"`
	FnPts    bool        `json:"fn_points,omitempty"` // function entries are scheduling points too
	MapOrder bool        `json:"map_order,omitempty"` // the iteration order of every map ranged over is explored too (2 deviations)
	ShardN   int         `json:"shard_n,omitempty"`   // the tree is split over ShardN tasks by the index of the first deviation
	ShardI   int         `json:"shard_i,omitempty"`
	Choices  []vrt.Point `json:"choices,omitempty"`
}

var c08RmAmb bool // set by c08Rel around its calls (the relational part runs one case at a time)

func c08Model(name string, rmgaps bool, gapmut int) (dna.DistModel, error) {
	m, err := dna.Model(name, rmgaps)
	if err != nil {
		return nil, err
	}
	switch t := m.(type) {
	case *dna.PDistModel:
		err = t.SetCountGapMutations(gapmut)
		t.SetRemoveAmbiguous(c08RmAmb)
	case *dna.RawDistModel:
		err = t.SetCountGapMutations(gapmut)
	}
	return m, err
}

func c08Dist(seqs []string, weights []float64, model string, rmgaps bool, gapmut, cpus int) ([][]float64, error) {
	al, err := mkAlign(align.NUCLEOTIDS, namedRows(seqs...))
	if err != nil {
		return nil, err
	}
	m, err := c08Model(model, rmgaps, gapmut)
	if err != nil {
		return nil, err
	}
	return dna.DistMatrix(al, weights, m, -1, -1, -1, -1, false, 0, cpus)
}

func c08Close(a, b, scale float64) bool {
	a *= scale
	if math.IsNaN(a) || math.IsNaN(b) {
		return math.IsNaN(a) && math.IsNaN(b)
	}
	if math.IsInf(a, 0) || math.IsInf(b, 0) {
		return a == b
	}
	d := math.Abs(a - b)
	return d <= 1e-9*math.Max(1, math.Max(math.Abs(a), math.Abs(b)))
}

func c08SameMatrix(a, b [][]float64, scale float64, rowperm []int) (bool, string) {
	if len(a) != len(b) {
		return false, "different dimension"
	}
	for i := range a {
		for j := range a {
			pi, pj := i, j
			if rowperm != nil {
				pi, pj = rowperm[i], rowperm[j]
			}
			// b is the matrix of the permuted alignment: row i of b is row rowperm[i] of the original
			if !c08Close(a[pi][pj], b[i][j], scale) {
				return false, fmt.Sprintf("entry (%d,%d): %v vs %v (scale %v)", i, j, a[pi][pj], b[i][j], scale)
			}
		}
	}
	return true, ""
}

func c08Bits(m [][]float64) string {
	var b strings.Builder
	for _, r := range m {
		for _, x := range r {
			fmt.Fprintf(&b, "%016x,", math.Float64bits(x))
		}
		b.WriteByte(';')
	}
	return b.String()
}

func c08RevComp(s string) string {
	b := []byte(s)
	for i, j := 0, len(b)-1; i < j; i, j = i+1, j-1 {
		b[i], b[j] = b[j], b[i]
	}
	for i, c := range b {
		switch c {
		case 'A':
			b[i] = 'T'
		case 'T':
			b[i] = 'A'
		case 'C':
			b[i] = 'G'
		case 'G':
			b[i] = 'C'
		case 'R':
			b[i] = 'Y'
		case 'Y':
			b[i] = 'R'
		}
	}
	return string(b)
}

// ---- relational part

func c08Rel(c *mc.Ctx, cs c08Case) {
	c.Eval()
	c08RmAmb = cs.RmAmb
	defer func() { c08RmAmb = false }()
	viol := func(clause, desc string) {
		c.Violation("C08/rel/"+clause+"/"+cs.Model, fmt.Sprintf("%s: case %s", desc, jsonStr(cs)), cs)
	}
	n, L := len(cs.Seqs), len(cs.Seqs[0])
	var base [][]float64
	var err error
	var shared dna.DistModel
	if cs.Shared {
		if shared, err = c08Model(cs.Model, cs.RmGaps, cs.GapMut); err != nil {
			c.Fatal("model: %v", err)
			return
		}
	}
	dist := func(seqs []string, w []float64, cpus int) (m [][]float64, e error, pn bool) {
		p, msg := mc.Guard(func() {
			if !cs.Shared && !cs.RangeAll && cs.Alpha == 0 {
				m, e = c08Dist(seqs, w, cs.Model, cs.RmGaps, cs.GapMut, cpus)
				return
			}
			al, e1 := mkAlign(align.NUCLEOTIDS, namedRows(seqs...))
			if e1 != nil {
				e = e1
				return
			}
			md := shared
			if md == nil {
				if md, e = c08Model(cs.Model, cs.RmGaps, cs.GapMut); e != nil {
					return
				}
			}
			lo, hi := -1, -1
			if cs.RangeAll {
				lo, hi = 0, len(seqs)-1
			}
			m, e = dna.DistMatrix(al, w, md, lo, hi, lo, hi, cs.Alpha > 0, cs.Alpha, cpus)
		})
		if p {
			viol("panic", msg)
		}
		return m, e, p
	}
	var pn bool
	if base, err, pn = dist(cs.Seqs, nil, 1); pn {
		return
	}
	if err != nil {
		c.Skip("rel: DistMatrix returned an error on the base alignment (not this property's business)")
		return
	}
	// At a singularity of the estimator (saturation, no comparable site, a zero base frequency in a
	// denominator) the distance is undefined; how "undefined" is rendered (NaN, Inf, 2*max, a huge value
	// produced by rounding) legitimately depends on the order of the floating-point operations, so
	// "unchanged up to rounding" cannot be demanded there.  C07 decides what is reported for such pairs.
	iupac := strings.ContainsAny(strings.Join(cs.Seqs, ""), "RY")
	if iupac {
		// With ambiguity codes the harness does not re-derive the estimator's arguments (how a code is
		// shared between bases is C07's business); a case is taken as regular when every entry is finite
		// and moderate, and the transformed alignments are held to the same matrix.
		for i := range base {
			for j := range base {
				if math.IsNaN(base[i][j]) || math.IsInf(base[i][j], 0) || math.Abs(base[i][j]) > 3 {
					c.Skip("rel: ambiguity-code case with a non-finite or large entry (possibly at a singularity)")
					c.Outcome("rel:" + cs.Model + ":singular-skipped")
					return
				}
			}
		}
	} else if c08Singular(cs.Seqs, cs.Model, cs.RmGaps) {
		c.Skip("rel: some pair is at or beyond a singularity of the estimator (undefined distance; C07's business)")
		c.Outcome("rel:" + cs.Model + ":singular-skipped")
		return
	}
	for i := range base {
		for j := range base {
			if math.IsNaN(base[i][j]) || math.IsInf(base[i][j], 0) {
				c.Skip("rel: non-finite entry although the estimator is defined (formula question: C07's business)")
				return
			}
		}
	}
	internalGaps := cs.GapMut == 1 // --gap-mut 1 = only internal gaps, 2 = all gaps (cmd/computedist.go)
	scaleRaw := func(k int) float64 {
		if cs.Model == "rawdist" {
			return float64(k)
		}
		return 1
	}
	cmp := func(clause string, seqs []string, w []float64, scale float64, rowperm []int) bool {
		m, e, p := dist(seqs, w, 1)
		if p {
			return false
		}
		if e != nil {
			viol(clause+"-error", e.Error())
			return false
		}
		if ok, why := c08SameMatrix(base, m, scale, rowperm); !ok {
			viol(clause, fmt.Sprintf("%s; transformed alignment %v weights %v", why, seqs, w))
			return false
		}
		return true
	}
	// thread counts: bit-identical
	for _, cpus := range []int{2, 3} {
		// (GOMAXPROCS following the thread count, as --threads does, is the business of c08Threads:
		// switching it is a stop-the-world operation, too dear for every relational case)
		m, e, p := dist(cs.Seqs, nil, cpus)
		if p {
			return
		}
		if e != nil || c08Bits(m) != c08Bits(base) {
			viol("threads-not-bit-identical", fmt.Sprintf("cpus=%d: %v (err %v) vs cpus=1: %v", cpus, m, e, base))
			return
		}
	}
	// explicit unit weights
	unit := make([]float64, L)
	for i := range unit {
		unit[i] = 1
	}
	if !cmp("unit-weights", cs.Seqs, unit, 1, nil) {
		return
	}
	if !internalGaps {
		// every column permutation
		ok := true
		perms(L, func(p []int) {
			if !ok {
				return
			}
			seqs := make([]string, n)
			for r := range seqs {
				b := make([]byte, L)
				for i := range b {
					b[i] = cs.Seqs[r][p[i]]
				}
				seqs[r] = string(b)
			}
			ok = cmp("column-permutation", seqs, nil, 1, nil)
		})
		if !ok {
			return
		}
		// replication by concatenation with itself and by integer weights
		for k := 2; k <= 3; k++ {
			seqs := make([]string, n)
			for r := range seqs {
				seqs[r] = strings.Repeat(cs.Seqs[r], k)
			}
			if !cmp("replication-concat", seqs, nil, scaleRaw(k), nil) {
				return
			}
			w := make([]float64, L)
			for i := range w {
				w[i] = float64(k)
			}
			if !cmp("replication-weights", cs.Seqs, w, scaleRaw(k), nil) {
				return
			}
		}
	} else {
		c.Skip("rel: column-permutation and replication relations are not claimed for the internal-gap counting mode")
	}
	// whole-alignment reverse complement (claimed in every mode: reversing the columns turns leading gaps
	// into trailing ones and keeps internal gaps internal)
	{
		rc := make([]string, n)
		for r := range rc {
			rc[r] = c08RevComp(cs.Seqs[r])
		}
		if !cmp("reverse-complement", rc, nil, 1, nil) {
			return
		}
	}
	// every row permutation
	ok := true
	perms(n, func(p []int) {
		if !ok {
			return
		}
		seqs := make([]string, n)
		for i := range seqs {
			seqs[i] = cs.Seqs[p[i]]
		}
		ok = cmp("row-permutation", seqs, nil, 1, append([]int{}, p...))
	})
	if !ok {
		return
	}
	distinct := false
	for i := range base {
		for j := range base {
			if i != j && base[i][j] != 0 {
				distinct = true
			}
		}
	}
	if distinct {
		c.Nontrivial(fmt.Sprintf("rel|%v|%s|%v|%d|%v|%v|%v", cs.Seqs, cs.Model, cs.RmGaps, cs.GapMut, cs.Shared, cs.RangeAll, cs.Alpha))
	}
	c.Outcome("rel:" + cs.Model + ":ok")
	if distinct && L >= 2 {
		c.Sample(map[string]any{"case": cs, "matrix": fmtMatrix(base)})
	}
}

func c08FracWeights(L int) []float64 {
	frac := make([]float64, L)
	for i := range frac {
		frac[i] = []float64{0.1, 0.7, 1.3, 0.3, 2.1}[i%5]
	}
	return frac
}

// c08Threads: the matrix for cpus = GOMAXPROCS = 1 and for 2, 3, 4 (GOMAXPROCS set like --threads does)
// must be the same bits, with and without fractional weights.
func c08Threads(c *mc.Ctx, cs c08Case) {
	c.Eval()
	L := len(cs.Seqs[0])
	for wi, w := range [][]float64{nil, c08FracWeights(L)} {
		var base [][]float64
		for _, cpus := range []int{1, 2, 3, 4} {
			var m [][]float64
			var e error
			old := runtime.GOMAXPROCS(cpus)
			pn, msg := mc.Guard(func() { m, e = c08Dist(cs.Seqs, w, cs.Model, cs.RmGaps, cs.GapMut, cpus) })
			runtime.GOMAXPROCS(old)
			if pn {
				c.Violation("C08/threads/panic/"+cs.Model, msg+": case "+jsonStr(cs), cs)
				return
			}
			if e != nil {
				c.Skip("threads: DistMatrix returned an error (not this property's business)")
				return
			}
			if cpus == 1 {
				base = m
				continue
			}
			if c08Bits(m) != c08Bits(base) {
				c.Violation("C08/threads/not-bit-identical/"+cs.Model, fmt.Sprintf("threads=%d (weights %v): %v vs threads=1: %v: case %s", cpus, w, m, base, jsonStr(cs)), cs)
				return
			}
		}
		if wi == 0 && base[0][1] != 0 && !math.IsNaN(base[0][1]) {
			c.Nontrivial(fmt.Sprintf("threads|%v|%s", cs.Seqs, cs.Model))
		}
	}
	c.Outcome("threads:" + cs.Model + ":same-bits")
}

// c08Singular: is some pair of the alignment at or beyond a singularity of the model's estimator?
// Evaluated from the definition on the harness's own column counts (alphabet {A,C,G,T,-}); base
// frequencies are taken under both conventions found in the literature/code (denominator = nucleotide
// cells, or all cells of the selected sites) and the case is singular if it is under either.
func c08Singular(seqs []string, model string, rmgaps bool) bool {
	const eps = 1e-9
	n, L := len(seqs), len(seqs[0])
	sel := make([]bool, L)
	for k := 0; k < L; k++ {
		sel[k] = true
		if rmgaps {
			for i := 0; i < n; i++ {
				if seqs[i][k] == '-' {
					sel[k] = false
				}
			}
		}
	}
	var cnt [4]float64
	nuc, cells := 0.0, 0.0
	for i := 0; i < n; i++ {
		for k := 0; k < L; k++ {
			if !sel[k] {
				continue
			}
			cells++
			if x := strings.IndexByte("ACGT", seqs[i][k]); x >= 0 {
				cnt[x]++
				nuc++
			}
		}
	}
	purine := func(b byte) bool { return b == 'A' || b == 'G' }
	for _, denom := range []float64{nuc, cells} {
		var pi [4]float64
		if denom > 0 {
			for x := range pi {
				pi[x] = cnt[x] / denom
			}
		}
		pA, pC, pG, pT := pi[0], pi[1], pi[2], pi[3]
		pR, pY := pA+pG, pC+pT
		for i := 0; i < n; i++ {
			for j := i + 1; j < n; j++ {
				var T, P, Q, P1, P2 float64
				for k := 0; k < L; k++ {
					a, b := seqs[i][k], seqs[j][k]
					if !sel[k] || a == '-' || b == '-' {
						continue
					}
					T++
					if a == b {
						continue
					}
					if purine(a) == purine(b) {
						P++
						if purine(a) {
							P1++
						} else {
							P2++
						}
					} else {
						Q++
					}
				}
				if model == "rawdist" {
					continue
				}
				if T == 0 {
					return true
				}
				P, Q, P1, P2 = P/T, Q/T, P1/T, P2/T
				p := P + Q
				var args []float64
				switch model {
				case "jc":
					args = []float64{1 - 4*p/3}
				case "k2p":
					args = []float64{1 - 2*P - Q, 1 - 2*Q}
				case "f81":
					b := 1 - (pA*pA + pC*pC + pG*pG + pT*pT)
					if b < eps {
						return true
					}
					args = []float64{1 - p/b}
				case "f84":
					if pR < eps || pY < eps {
						return true
					}
					a := pA*pG/pR + pC*pT/pY
					b := pA*pG + pC*pT
					cc := pR * pY
					if a < eps || cc < eps {
						return true
					}
					args = []float64{1 - P/(2*a) - (a-b)*Q/(2*a*cc), 1 - Q/(2*cc)}
				case "tn93":
					if pR < eps || pY < eps || pA*pG < eps || pC*pT < eps {
						return true
					}
					args = []float64{1 - Q/(2*pY*pR), 1 - Q/(2*pR) - pR*P1/(2*pA*pG), 1 - Q/(2*pY) - pY*P2/(2*pC*pT)}
				}
				for _, a := range args {
					if a < eps {
						return true
					}
				}
			}
		}
	}
	return false
}

func fmtMatrix(m [][]float64) []string {
	var out []string
	for _, r := range m {
		out = append(out, fmt.Sprint(r))
	}
	return out
}

// ---- schedule and fault parts

type c08FailModel struct {
	dna.DistModel
	at   string
	idx  int
	nd   int
	ns   int
	fail error
}

func (m *c08FailModel) Distance(s1, s2 []uint8, w []float64) (float64, error) {
	k := m.nd
	m.nd++ // only touched by the goroutine holding the scheduler token; each call site is serialised by the controlled scheduler
	if (m.at == "dist" && k == m.idx) || (m.at == "dist-from" && k >= m.idx) {
		return 0, m.fail
	}
	return m.DistModel.Distance(s1, s2, w)
}

func (m *c08FailModel) Sequence(i int) ([]uint8, error) {
	k := m.ns
	m.ns++
	if m.at == "seq" && k == m.idx {
		return nil, m.fail
	}
	return m.DistModel.Sequence(i)
}

var errC08Injected = errors.New("injected model failure")

type c08Result struct {
	m   [][]float64
	err error
}

func c08Sched(c *mc.Ctx, cs c08Case, single bool) {
	viol := func(x *mc.Execution, clause, desc string) {
		r := cs
		r.Choices = x.Exec.Points
		c.Violation("C08/"+cs.Kind+"/"+clause, fmt.Sprintf("%s; cpus=%d model=%s seqs=%v schedule=[%s]", desc, cs.Cpus, cs.Model, cs.Seqs, x.Choices()), r)
	}
	rg := cs.Ranges
	if rg == nil {
		rg = []int{-1, -1, -1, -1}
	}
	run := func(cpus int) c08Result {
		al, err := mkAlign(align.NUCLEOTIDS, namedRows(cs.Seqs...))
		if err != nil {
			return c08Result{nil, err}
		}
		var m dna.DistModel
		if m, err = c08Model(cs.Model, cs.RmGaps, cs.GapMut); err != nil {
			return c08Result{nil, err}
		}
		if cs.Kind == "fault" {
			m = &c08FailModel{DistModel: m, at: cs.FailAt, idx: cs.FailIdx, fail: errC08Injected}
		}
		out, err := dna.DistMatrix(al, nil, m, rg[0], rg[1], rg[2], rg[3], false, 0, cpus)
		return c08Result{out, err}
	}
	// reference: sequential, outside the scheduler, no fault
	var ref c08Result
	if cs.Kind == "sched" {
		ref = run(1)
		if ref.err != nil {
			c.Fatal("reference run failed: %v", ref.err)
			return
		}
	}
	ex := &mc.Explorer{
		Ctx:    c,
		Opts:   vrt.Options{Sched: true, MaxSteps: 200000, FnPoints: cs.FnPts, MapChoice: cs.MapOrder},
		Bound:  map[string]int{"sched": cs.Bound, "map": 2},
		ShardN: cs.ShardN, ShardI: cs.ShardI,
		Body: func() any { return run(cs.Cpus) },
	}
	ex.Check = func(x *mc.Execution) {
		e := x.Exec
		c.Nontrivial(fmt.Sprintf("%s|%v|%d|%s", cs.Kind, cs, cs.Cpus, x.Choices()))
		switch {
		case e.Horizon:
			viol(x, "horizon", "execution did not finish within the step horizon")
			return
		case e.Deadlock:
			viol(x, "deadlock", "the call never returns: "+strings.Join(e.Blocked, ", "))
			c.Outcome(cs.Kind + ":deadlock")
			return
		case len(e.Errors) > 0:
			viol(x, "sync-misuse", strings.Join(e.Errors, "; "))
			return
		case x.Panic != nil:
			viol(x, "panic", fmt.Sprint(x.Panic))
			return
		}
		if len(e.Races) > 0 {
			viol(x, "data-race/"+raceVar(e.Races[0]), e.Races[0])
			c.Outcome(cs.Kind + ":race")
			return
		}
		if e.Leak {
			c.Count("executions_with_leaked_goroutine", 1)
		}
		res := x.Result.(c08Result)
		if cs.Kind == "sched" {
			if res.err != nil {
				viol(x, "unexpected-error", res.err.Error())
				return
			}
			if c08Bits(res.m) != c08Bits(ref.m) {
				viol(x, "result-depends-on-schedule", fmt.Sprintf("got %v want %v", res.m, ref.m))
				return
			}
			c.Outcome("sched:ok:threads" + fmt.Sprint(e.Threads))
		} else {
			if res.err == nil {
				viol(x, "error-lost", "the model failed but DistMatrix returned no error")
				return
			}
			if !errors.Is(res.err, errC08Injected) {
				viol(x, "wrong-error", fmt.Sprintf("returned error %q is not the injected one", res.err))
				return
			}
			c.Outcome("fault:error-returned")
		}
		if ex.Executions%64 == 1 {
			if !ex.Deterministic(x, func(a, b *mc.Execution) bool {
				ra, rb := a.Result.(c08Result), b.Result.(c08Result)
				return c08Bits(ra.m) == c08Bits(rb.m) && fmt.Sprint(ra.err) == fmt.Sprint(rb.err)
			}) {
				c.Fatal("replaying schedule [%s] gave a different execution", x.Choices())
				ex.Stop()
			}
		}
		if ex.Executions == 3 {
			c.Sample(map[string]any{"case": cs, "schedule": x.Choices(), "threads": e.Threads, "steps": e.Steps})
		}
	}
	if single {
		x := ex.RunOnce(cs.Choices)
		c.Eval()
		ex.Executions = 2 // no determinism re-run, no sample
		ex.Check(x)
		return
	}
	if !ex.Explore() {
		c.Note(fmt.Sprintf("schedule tree not completed within the time cap after %d executions: %s", ex.Executions, jsonStr(cs)))
		c.Count("sched_trees_capped", 1)
	} else {
		c.Count("sched_trees_completed", 1)
	}
	c.Count(fmt.Sprintf("executions_%s_cpus%d", cs.Kind, cs.Cpus), ex.Executions)
}

// raceVar extracts the variable expression of a vrt race report ("… at <expr>@file:line …").
func raceVar(msg string) string {
	i := strings.Index(msg, " at ")
	if i < 0 {
		return "?"
	}
	s := msg[i+4:]
	if j := strings.Index(s, "@"); j > 0 {
		s = s[:j]
	}
	s = strings.TrimPrefix(s, "&")
	if j := strings.IndexAny(s, "[ "); j > 0 {
		s = s[:j]
	}
	return s
}

func c08Tasks(tier string) []mc.Task {
	var ts []mc.Task
	thorough := tier == "thorough"
	// --- schedule part (first: these are the long tasks)
	schedSeqs := [][]string{
		{"ACGT", "CCGT", "CAGT"}, // k2p: (0,2) has transversion rate 1/2 -> +Inf -> the 2*max substitution path
	}
	bounds := []int{0, 1, 2}
	if thorough {
		bounds = []int{0, 1, 2, 3}
	}
	for _, seqs := range schedSeqs {
		for _, model := range []string{"k2p", "jc"} {
			for _, cpus := range []int{1, 2, 3} {
				for _, b := range bounds {
					if model == "jc" && b < bounds[len(bounds)-1] {
						continue
					}
					cs := c08Case{Kind: "sched", Seqs: seqs, Model: model, Cpus: cpus, Bound: b}
					nsh := 1
					if b >= 3 && cpus >= 2 {
						nsh = 16 // the large trees are split over 16 tasks
					}
					for sh := 0; sh < nsh; sh++ {
						css := cs
						if nsh > 1 {
							css.ShardN, css.ShardI = nsh, sh
						}
						ts = append(ts, mc.Task{Name: fmt.Sprintf("sched#%s/cpus%d/bound%d/shard%d", model, cpus, b, sh), Run: func(c *mc.Ctx) { c08Sched(c, css, false) }})
					}
				}
			}
		}
	}
	// 4 sequences with overlapping ranges
	for _, cpus := range []int{1, 2} {
		cs := c08Case{Kind: "sched", Seqs: []string{"ACGT", "CCGT", "CAGT", "ACGA"}, Model: "k2p", Cpus: cpus, Bound: 1, Ranges: []int{0, 2, 1, 3}}
		if thorough {
			cs.Bound = 2
		}
		ts = append(ts, mc.Task{Name: fmt.Sprintf("sched#ranges/cpus%d", cpus), Run: func(c *mc.Ctx) { c08Sched(c, cs, false) }})
	}
	// a pair whose estimator is undefined (p = 3/4 under JC: +Inf): the matrix-wide maximum that
	// replaces it is accumulated by the workers and must not depend on the schedule
	for _, cpus := range []int{2, 3} {
		cs := c08Case{Kind: "sched", Seqs: []string{"AAAA", "CCCA", "AACA"}, Model: "jc", Cpus: cpus, Bound: 2}
		nsh := 1
		if thorough {
			cs.Bound = 3
			nsh = 16
		}
		for sh := 0; sh < nsh; sh++ {
			css := cs
			if nsh > 1 {
				css.ShardN, css.ShardI = nsh, sh
			}
			ts = append(ts, mc.Task{Name: fmt.Sprintf("sched#maxfill/cpus%d/shard%d", cpus, sh), Run: func(c *mc.Ctx) { c08Sched(c, css, false) }})
		}
	}
	// interleavings inside the workers: every function entry (>= 4 statements) of goalign is a scheduling
	// point as well, one preemption: state shared through the heap or through package-level variables
	// (a hoisted scratch buffer, a cache) shows by its effect on the matrix
	for _, model := range []string{"pdist", "k2p", "f81", "tn93", "rawdist"} {
		cs := c08Case{Kind: "sched", Seqs: []string{"ACGTAC", "CCGTAA", "CAGT-C"}, Model: model, Cpus: 2, Bound: 1, FnPts: true}
		ts = append(ts, mc.Task{Name: fmt.Sprintf("sched#fnpoints/%s/cpus2", model), Run: func(c *mc.Ctx) { c08Sched(c, cs, false) }})
		if thorough {
			cs3 := cs
			cs3.Cpus = 3
			ts = append(ts, mc.Task{Name: fmt.Sprintf("sched#fnpoints/%s/cpus3", model), Run: func(c *mc.Ctx) { c08Sched(c, cs3, false) }})
		}
	}
	// iteration order of Go maps: on alignments whose base frequencies are sums of thirds (three-fold codes),
	// any map ranged over while the model is initialised or the matrix computed is iterated in every order
	// within two deviations from the sorted one: the result must be the same bits
	for _, model := range []string{"f81", "f84", "tn93", "pdist"} {
		cs := c08Case{Kind: "sched", Seqs: []string{"ABVDHC", "CHBVDA", "ADHBVV"}, Model: model, Cpus: 1, Bound: 0, MapOrder: true}
		ts = append(ts, mc.Task{Name: fmt.Sprintf("sched#maporder/%s", model), Run: func(c *mc.Ctx) { c08Sched(c, cs, false) }})
	}
	// full-buffer path: 15 sequences = 105 pairs > channel capacity 100
	{
		var seqs []string
		for i := 0; i < 15; i++ {
			seqs = append(seqs, fmt.Sprintf("%c%c%c%c", "ACGT"[i%4], "ACGT"[(i/4)%4], 'A', 'C'))
		}
		cs := c08Case{Kind: "sched", Seqs: seqs, Model: "pdist", Cpus: 1, Bound: 1}
		ts = append(ts, mc.Task{Name: "sched#fullbuffer/cpus1", Run: func(c *mc.Ctx) { c08Sched(c, cs, false) }})
		if thorough {
			cs2 := cs
			cs2.Cpus = 2
			ts = append(ts, mc.Task{Name: "sched#fullbuffer/cpus2", Run: func(c *mc.Ctx) { c08Sched(c, cs2, false) }})
		}
	}
	// --- fault part: every pair and every Sequence() call fails in turn
	fb := 1
	if thorough {
		fb = 2
	}
	for _, cpus := range []int{1, 2, 3} {
		for k := 0; k < 3; k++ {
			cs := c08Case{Kind: "fault", Seqs: schedSeqs[0], Model: "k2p", Cpus: cpus, Bound: fb, FailAt: "dist", FailIdx: k}
			ts = append(ts, mc.Task{Name: fmt.Sprintf("fault#dist%d/cpus%d", k, cpus), Run: func(c *mc.Ctx) { c08Sched(c, cs, false) }})
		}
		for k := 0; k < 5; k++ { // Sequence(i) is called 2 + 2 + 1 times for 3 sequences
			cs := c08Case{Kind: "fault", Seqs: schedSeqs[0], Model: "k2p", Cpus: cpus, Bound: fb, FailAt: "seq", FailIdx: k}
			ts = append(ts, mc.Task{Name: fmt.Sprintf("fault#seq%d/cpus%d", k, cpus), Run: func(c *mc.Ctx) { c08Sched(c, cs, false) }})
		}
	}
	// several failures in one call: every evaluation from the k-th on fails (each worker may hit its own failure)
	for _, cpus := range []int{2, 3} {
		for k := 0; k < 2; k++ {
			cs := c08Case{Kind: "fault", Seqs: schedSeqs[0], Model: "k2p", Cpus: cpus, Bound: 2, FailAt: "dist-from", FailIdx: k}
			nsh := 1
			if thorough {
				cs.Bound = 3
				nsh = 16
			}
			for sh := 0; sh < nsh; sh++ {
				css := cs
				if nsh > 1 {
					css.ShardN, css.ShardI = nsh, sh
				}
				ts = append(ts, mc.Task{Name: fmt.Sprintf("fault#distfrom%d/cpus%d/shard%d", k, cpus, sh), Run: func(c *mc.Ctx) { c08Sched(c, css, false) }})
			}
		}
	}
	// fault with many pairs: a failure while the producer still has > capacity pairs to send
	{
		var seqs []string
		for i := 0; i < 16; i++ {
			seqs = append(seqs, fmt.Sprintf("%c%c%c%c", "ACGT"[i%4], "ACGT"[(i/4)%4], 'A', 'C'))
		}
		cs := c08Case{Kind: "fault", Seqs: seqs, Model: "pdist", Cpus: 1, Bound: 0, FailAt: "dist", FailIdx: 0}
		ts = append(ts, mc.Task{Name: "fault#manypairs/cpus1", Run: func(c *mc.Ctx) { c08Sched(c, cs, false) }})
		// the same with one preemption (the producer refills the queue between the worker's receive and its
		// failure), failing at the first and at a later pair, and with every evaluation failing for 2 workers
		for _, k := range []int{0, 7} {
			cs1 := c08Case{Kind: "fault", Seqs: seqs, Model: "pdist", Cpus: 1, Bound: 1, FailAt: "dist", FailIdx: k}
			ts = append(ts, mc.Task{Name: fmt.Sprintf("fault#manypairs/cpus1/bound1/dist%d", k), Run: func(c *mc.Ctx) { c08Sched(c, cs1, false) }})
		}
		cs2 := c08Case{Kind: "fault", Seqs: seqs, Model: "pdist", Cpus: 2, Bound: 1, FailAt: "dist-from", FailIdx: 0}
		ts = append(ts, mc.Task{Name: "fault#manypairs/cpus2/bound1/distfrom0", Run: func(c *mc.Ctx) { c08Sched(c, cs2, false) }})
	}
	// --- relational part
	const alpha = "ACGT-"
	type shape struct{ n, L int }
	shapes := []shape{{2, 1}, {2, 2}, {3, 1}, {2, 3}, {3, 2}}
	if thorough {
		shapes = append(shapes, shape{2, 4}, shape{3, 3})
	}
	for _, sh := range shapes {
		sh := sh
		for _, model := range c08Models {
			model := model
			alpha := alpha
			if sh.n == 3 && sh.L == 3 && (model == "rawdist" || model == "pdist") {
				// three gap-counting modes make these two models 3x as expensive, and the full 3x3 space
				// does not complete in the budget: a column of 3 rows holds at most 3 distinct
				// nucleotides and neither model distinguishes transitions from transversions, so
				// {A,C,T,-} reaches every column pattern up to renaming (the 5-letter alphabet is
				// complete for the six smaller shapes)
				alpha = "ACT-"
			}
			var prefixes []string
			if sh.n*sh.L >= 6 {
				for i := 0; i < len(alpha); i++ {
					for j := 0; j < len(alpha); j++ {
						prefixes = append(prefixes, string([]byte{alpha[i], alpha[j]}))
					}
				}
			} else {
				prefixes = []string{""}
			}
			for _, pf := range prefixes {
				pf := pf
				ts = append(ts, mc.Task{Name: fmt.Sprintf("rel#%s/%dx%d/%s", model, sh.n, sh.L, pf), Run: func(c *mc.Ctx) {
					forEachStringLen(alpha, sh.n*sh.L, []byte(pf), func(s []byte) bool {
						seqs := make([]string, sh.n)
						for i := range seqs {
							seqs[i] = string(s[i*sh.L : (i+1)*sh.L])
						}
						for _, rm := range []bool{false, true} {
							gms := []int{0}
							if model == "rawdist" || model == "pdist" {
								gms = []int{0, 1, 2}
							}
							for _, gm := range gms {
								c08Rel(c, c08Case{Kind: "rel", Seqs: seqs, Model: model, RmGaps: rm, GapMut: gm})
								if sh.n*sh.L <= 6 {
									// one model value for all calls of the case; range mode
									c08Rel(c, c08Case{Kind: "rel", Seqs: seqs, Model: model, RmGaps: rm, GapMut: gm, Shared: true})
									if model != "pdist" && model != "rawdist" {
										c08Rel(c, c08Case{Kind: "rel", Seqs: seqs, Model: model, RmGaps: rm, Alpha: 0.5}) // gamma-distributed rates
									}
									if sh.n*sh.L <= 4 || (sh.n == 3 && gm == 0) {
										c08Rel(c, c08Case{Kind: "rel", Seqs: seqs, Model: model, RmGaps: rm, GapMut: gm, RangeAll: true})
									}
								}
							}
						}
						return !c.Expired()
					})
				}})
			}
		}
	}
	// gamma-distributed rates on pairs that are far from saturation: every multiset of 6 (thorough 7) pair
	// columns over {A/A, C/C, G/G, T/T, A/G, C/T, A/C, G/T} (unequal purine / pyrimidine frequencies, few
	// differences), five corrected models, shape 0.5 and 2
	for _, model := range []string{"jc", "k2p", "f81", "f84", "tn93"} {
		for _, a := range []float64{0.5, 2} {
			for sh := 0; sh < 6; sh++ {
				model, a, sh := model, a, sh
				ts = append(ts, mc.Task{Name: fmt.Sprintf("relgamma#%s/alpha%v/shard%d", model, a, sh), Run: func(c *mc.Ctx) {
					types := [][2]byte{{'A', 'A'}, {'C', 'C'}, {'G', 'G'}, {'T', 'T'}, {'A', 'G'}, {'C', 'T'}, {'A', 'C'}, {'G', 'T'}}
					L := 6
					if thorough {
						L = 7
					}
					i := -1
					c07Multisets(types, L, func(seqs []string) bool {
						if i++; i%6 == sh {
							c08Rel(c, c08Case{Kind: "rel", Seqs: seqs, Model: model, Alpha: a})
						}
						return !c.Expired()
					})
				}})
			}
		}
	}
	// ambiguity codes: purine / pyrimidine codes R and Y next to A, G, C (strand symmetry of the
	// transition/transversion classification, sharing of codes in base frequencies)
	for _, sh := range []shape{{2, 1}, {2, 2}, {2, 3}} {
		sh := sh
		if sh.L == 3 && !thorough {
			continue
		}
		for _, model := range c08Models {
			model := model
			const ia = "AGCRY"
			for i := 0; i < len(ia); i++ {
				pf := ia[i : i+1]
				ts = append(ts, mc.Task{Name: fmt.Sprintf("reliupac#%s/%dx%d/%s", model, sh.n, sh.L, pf), Run: func(c *mc.Ctx) {
					forEachStringLen(ia, sh.n*sh.L, []byte(pf), func(s []byte) bool {
						if !bytes.ContainsAny(s, "RY") {
							return true
						}
						seqs := []string{string(s[:sh.L]), string(s[sh.L:])}
						c08Rel(c, c08Case{Kind: "rel", Seqs: seqs, Model: model})
						if model == "pdist" {
							// the gap / ambiguity counting modes of the p-distance
							for _, gm := range []int{0, 2} {
								c08Rel(c, c08Case{Kind: "rel", Seqs: seqs, Model: model, GapMut: gm, RmAmb: true})
							}
							c08Rel(c, c08Case{Kind: "rel", Seqs: seqs, Model: model, GapMut: 2})
						}
						return !c.Expired()
					})
				}})
			}
		}
	}
	// thread counts with GOMAXPROCS following (as --threads does) on alignments whose base frequencies are
	// sums of thirds (three-fold codes B, V) and halves: a sum split over workers must not change a bit
	for _, model := range []string{"f81", "f84", "tn93", "jc", "pdist"} {
		model := model
		if (model == "f84" || model == "jc") && !thorough {
			continue
		}
		const ta = "ACBV"
		L := 4
		if thorough {
			L = 5
		}
		for i := 0; i < len(ta); i++ {
			pf := ta[i : i+1]
			ts = append(ts, mc.Task{Name: fmt.Sprintf("relthreads#%s/2x%d/%s", model, L, pf), Run: func(c *mc.Ctx) {
				// GOMAXPROCS is switched once per thread count (a stop-the-world operation), not per alignment:
				// the bits for 1 thread are kept and compared with those for 2, 3, 4 threads
				var cases []c08Case
				forEachStringLen(ta, 2*L, []byte(pf), func(s []byte) bool {
					cases = append(cases, c08Case{Kind: "threads", Seqs: []string{string(s[:L]), string(s[L:])}, Model: model})
					return true
				})
				base := make([][2]string, len(cases))
				bad := make([]bool, len(cases))
				for _, cpus := range []int{1, 2, 3, 4} {
					old := runtime.GOMAXPROCS(cpus)
					for i, cs := range cases {
						if bad[i] {
							continue
						}
						for wi, w := range [][]float64{nil, c08FracWeights(L)} {
							var m [][]float64
							var e error
							if pn, _ := mc.Guard(func() { m, e = c08Dist(cs.Seqs, w, cs.Model, false, 0, cpus) }); pn || e != nil {
								bad[i] = true
								break
							}
							if cpus == 1 {
								base[i][wi] = c08Bits(m)
							} else if c08Bits(m) != base[i][wi] {
								bad[i] = true
							}
						}
					}
					runtime.GOMAXPROCS(old)
					if c.Expired() {
						return
					}
				}
				// every case that did not simply agree is judged (and reported) on its own, replayably
				for i, cs := range cases {
					if bad[i] {
						c08Threads(c, cs)
					} else {
						c.Eval()
						c.Outcome("threads:" + cs.Model + ":same-bits")
						if base[i][0] != "" {
							c.Nontrivial(fmt.Sprintf("threads|%v|%s", cs.Seqs, cs.Model))
						}
					}
				}
			}})
		}
	}
	return ts
}

func init() {
	mc.Register(&mc.Prop{
		ID:    "C08",
		Level: "model_checking",
		Rule: "schedule part: stateless DFS over all interleavings of the real dna.DistMatrix goroutines (main, producer, cpus workers; scheduling points at every go/channel/mutex/WaitGroup operation) with iterative preemption bounds 0,1,2 (quick) / 0..3 (thorough), for 3 sequences x cpus 1..3 x {k2p (with a +Inf pair), jc}, 4 sequences with overlapping ranges, 15 sequences (105 pairs > channel capacity); 16 sequences (120 pairs) with a failing evaluation and one preemption (the producer blocked on the full queue when the failure comes); " +
			"function-entry part: 3 sequences, cpus 2 (3 thorough), 5 models, every function entry of goalign (functions of >= 4 statements) an additional scheduling point, preemption bound 1; " +
			"fault part: the same exploration with a DistModel that fails at each Distance call / each Sequence call in turn, and with one that fails at every Distance call from the k-th on (k=0,1; cpus 2,3; preemption bound 2/3); relational part: all alignments of shape 2x1,2x2,3x1,2x3,3x2 (+2x4,3x3 thorough; 3x3 over {A,C,T,-} for pdist and rawdist) over {A,C,G,T,-} x 7 models x rm-gaps x gap-count modes under every column permutation, replication (concat, weights) k=2,3, unit weights, reverse complement, every row permutation, cpus 1,2,3; the shapes of <= 6 cells also with gamma-distributed rates (alpha 0.5), every multiset of 6 (thorough 7) pair columns over {A/A,C/C,G/G,T/T,A/G,C/T,A/C,G/T} x 5 corrected models x alpha {0.5, 2} (pairs far from saturation, unequal purine / pyrimidine frequencies), the small shapes also with ONE model value serving all calls of a case (as build distboot does) and, for 2x1, 2x2, 3x1, 3x2, in range mode with both ranges = all rows; thread part (GOMAXPROCS following the thread count, as --threads does): all 2x4 (thorough 2x5) alignments over {A,C,B,V} x {f81,tn93,pdist} (thorough also f84, jc), with and without fractional weights, threads = GOMAXPROCS = 1,2,3,4 must give the same bits. " +
			"distinct_nontrivial counts distinct (case, schedule) executions of the schedule/fault parts plus relational cases whose matrix has a non-zero entry. states/transitions are nodes/edges of the schedule choice trees.",
		Assumptions: []string{
			"sequential consistency (Go programs without data races are SC; races are what the vector-clock check reports)",
			"scheduling points at synchronisation operations only; unsynchronised accesses are covered by the access events vinstr inserts on variables captured by go closures",
			"goroutine leaks after the call returned are counted, not reported (the statement speaks of the call returning)",
			"relations are checked to 1e-9 relative (\"up to rounding\"); internal-gap counting mode is exempt from column relations as stated",
		},
		Tasks: c08Tasks,
		Replay: func(c *mc.Ctx, payload json.RawMessage) {
			var cs c08Case
			if err := json.Unmarshal(payload, &cs); err != nil {
				c.Fatal("bad payload: %v", err)
				return
			}
			if cs.Kind == "rel" {
				c08Rel(c, cs)
			} else if cs.Kind == "threads" {
				c08Threads(c, cs)
			} else {
				c08Sched(c, cs, true)
			}
		},
		Post: func(m *mc.Master) { m.RacePass("dist"); m.RacePass("first/dist-") },
		Vacuity: func(tier string, t *mc.Totals) error {
			if t.Extra["executions_sched_cpus3"] < 50 || t.Extra["executions_fault_cpus2"] < 50 {
				return fmt.Errorf("too few schedules explored: %v", t.Extra)
			}
			return nil
		},
	})
}
