package props

import (
	"runtime"
	"encoding/json"
	"fmt"
	"hash/fnv"
	"math"
	"sort"
	"strconv"
	"strings"
	"time"

	"verif/harness/mc"

	"github.com/evolbioinfo/goalign/align"
	"github.com/evolbioinfo/goalign/distance/dna"
	"github.com/evolbioinfo/goalign/models"
	"github.com/evolbioinfo/goalign/stats"
	"github.com/evolbioinfo/goalign/verifrt/vrand"
	"github.com/evolbioinfo/goalign/verifrt/vrt"
)

// C20 — random site weights and rate categories are correctly normalised.
//
// Random part: every rand.Float64 / rand.Intn answer inside the weight
// builders and the Dirichlet samplers is a choice point; for each stated
// answer set the explorer executes EVERY sequence of answers whose length
// stays inside the stated draw budget (a path that needs more draws ends as
// "budget-capped": for valid parameters it is no verdict, for invalid
// parameters it is the verdict "does not report the error").
// Deterministic part: DiscreteGamma on a shape x ncat lattice, IncompleteGamma
// on a log grid in x against the harness' own evaluation of the series
// definition.

type c20Case struct {
	Op      string   `json:"op"`                // wgamma | wdirichlet | dirichlet | dirichlet1 | genrates | dgamma | igamma
	L       int      `json:"l,omitempty"`       // alignment length / nvalues / nsites
	Alpha   []string `json:"alpha,omitempty"`   // parameters as decimal strings (NaN / Inf are not JSON numbers)
	Factor  float64  `json:"factor,omitempty"`  // requested total of a Dirichlet sample
	Ncat    int      `json:"ncat,omitempty"`    // category count
	Answers string   `json:"answers,omitempty"` // name of the rand.Float64 answer set
	Budget  int      `json:"budget,omitempty"`  // maximal number of RNG answers per execution
	Seed    int64    `json:"seed,omitempty"`
	// Prior (seeded mode): lengths for which the same operation is called, in this order, in the same
	// process before the judged call (a result must not depend on earlier calls, e.g. a cached buffer)
	Prior []int  `json:"prior,omitempty"`
	// Long (seeded dirichlet): the parameter vector has this many components, all 1 but component BadAt
	// which is Bad (a vector long enough for code that shares the draws between workers); Procs: GOMAXPROCS
	Long  int    `json:"long,omitempty"`
	BadAt int    `json:"bad_at,omitempty"`
	Bad   string `json:"bad,omitempty"`
	Procs int    `json:"gomaxprocs,omitempty"`
	Mode  string `json:"mode"` // tree | leaf | seed | det
	// Progress only keeps the liveness mark of a long tree changing; it is ignored by replay.
	Progress int64       `json:"progress,omitempty"`
	Choices  []vrt.Point `json:"choices,omitempty"`
}

type c20Res struct {
	W    []float64
	Cat  []int
	Err  string
	Exit bool
}

// ---------------------------------------------------------------- answer sets

const c20Two53 = float64(1 << 53)

// rand.Float64 returns k/2^53, k in [0, 2^53): every answer offered is of that form.
func c20Floor53(x float64) float64 { return math.Floor(x*c20Two53) / c20Two53 }

var (
	c20G7rej = c20Floor53(1e-7)              // largest answer <= 1e-7  (the samplers redraw it)
	c20G7acc = c20G7rej + 1/c20Two53         // smallest answer > 1e-7
	c20G9rej = float64(.9999999)             // is itself k/2^53: smallest answer >= .9999999
	c20G9acc = c20G9rej - 1/c20Two53         // largest answer < .9999999
	c20Top   = 1 - 1/c20Two53                // largest answer of rand.Float64
	c20Milli = c20Floor53(1e-3) + 1/c20Two53 // smallest answer >= 1e-3
)

// c20Tiny: answers below it can make p^(1/alpha) underflow for alpha < 1 (see c20Leaf).
const c20Tiny = 1e-3

var c20AnswerSets = map[string][]float64{
	"mid":   {c20Floor53(0.1), 0.5, c20Floor53(0.9)},
	"ext":   {c20G7acc, 0.5, c20G9acc},
	"low":   {0, c20G7rej, c20G7acc, 0.5},
	"high":  {0.5, c20G9acc, c20G9rej, c20Top},
	"small": {c20Milli, 0.5, c20Floor53(0.999)},
	"pair":  {c20Floor53(0.3), c20Floor53(0.8)},
	"six":   {c20G7rej, c20G7acc, c20Floor53(0.1), 0.5, c20Floor53(0.9), c20G9acc},
	"inv":   {c20Floor53(0.3), c20Floor53(0.6), c20Floor53(0.9)},
	"all9":  {0, c20G7rej, c20G7acc, c20Floor53(0.1), 0.5, c20Floor53(0.9), c20G9acc, c20G9rej, c20Top},
}

func init() {
	if !(c20G7rej <= 1e-7 && c20G7acc > 1e-7 && c20G9acc < .9999999 && c20G9rej >= .9999999 && c20Top < 1 && c20Milli >= 1e-3) {
		panic("c20: guard representatives are on the wrong side")
	}
	for name, set := range c20AnswerSets {
		for _, v := range set {
			if v < 0 || v >= 1 || v*c20Two53 != math.Floor(v*c20Two53) {
				panic(fmt.Sprintf("c20: answer %v of set %s is not a value of rand.Float64", v, name))
			}
		}
	}
}

// ---------------------------------------------------------------- helpers

func c20F(s string) float64 {
	v, err := strconv.ParseFloat(s, 64)
	if err != nil {
		panic("c20: bad float " + s)
	}
	return v
}

func c20S(v float64) string {
	if v == 0 && math.Signbit(v) {
		return "-0"
	}
	return strconv.FormatFloat(v, 'g', -1, 64)
}

func c20Strs(v ...float64) []string {
	out := make([]string, len(v))
	for i := range v {
		out[i] = c20S(v[i])
	}
	return out
}

func c20Floats(s []string) []float64 {
	out := make([]float64, len(s))
	for i := range s {
		out[i] = c20F(s[i])
	}
	return out
}

// c20ParamClass names what is wrong with a Dirichlet parameter ("" = a positive finite real).
func c20ParamClass(a float64) string {
	switch {
	case math.IsNaN(a):
		return "NaN"
	case math.IsInf(a, 1):
		return "+Inf"
	case math.IsInf(a, -1):
		return "-Inf"
	case a == 0:
		return "zero"
	case a < 0:
		return "negative"
	}
	return ""
}

var c20Aligns = map[int]align.Alignment{}

func c20Align(L int) align.Alignment {
	if al, ok := c20Aligns[L]; ok {
		return al
	}
	s := strings.Repeat("ACGT", L/4+1)[:L]
	al, err := mkAlign(align.NUCLEOTIDS, namedRows(s, s))
	if err != nil {
		panic("c20: cannot build alignment: " + err.Error())
	}
	c20Aligns[L] = al
	return al
}

// c20Apply runs the real code once.
func c20Apply(cs c20Case) (res c20Res) {
	switch cs.Op {
	case "wgamma":
		res.W = dna.BuildWeightsGamma(c20Align(cs.L))
	case "wdirichlet":
		res.W = dna.BuildWeightsDirichlet(c20Align(cs.L))
	case "dirichlet":
		w, err := stats.Dirichlet(cs.Factor, c20Floats(cs.Alpha)...)
		res.W = w
		if err != nil {
			res.Err = err.Error()
		}
	case "dirichlet1":
		w, err := stats.Dirichlet1(cs.Factor, cs.L)
		res.W = w
		if err != nil {
			res.Err = err.Error()
		}
	case "genrates":
		res.W, res.Cat = models.GenerateRates(cs.L, true, c20F(cs.Alpha[0]), cs.Ncat, true)
	default:
		panic("c20: unknown op " + cs.Op)
	}
	return
}

func c20Sum(w []float64) float64 {
	s := 0.0
	for _, x := range w {
		s += x
	}
	return s
}

const c20SumTol = 1e-9 // relative

// c20Leaf is the oracle for one returned result of a random operation.
// clause == "" : admissible.  skip != "" : the statement does not decide it.
// tiny tells whether an RNG answer < 1e-3 was consumed (only known in choice mode;
// in seed mode it is passed as true).
func c20Leaf(cs c20Case, res c20Res, tiny bool) (clause, desc, skip string) {
	bad := func(cl, f string, a ...any) (string, string, string) { return cl, fmt.Sprintf(f, a...), "" }
	switch cs.Op {
	case "wgamma", "wdirichlet":
		// one strictly positive finite weight per site, summing to the alignment length
		if len(res.W) != cs.L {
			return bad("one-weight-per-site", "%d weights for %d sites", len(res.W), cs.L)
		}
		for i, w := range res.W {
			if math.IsNaN(w) || math.IsInf(w, 0) {
				return bad("weight-not-finite", "weight[%d]=%v in %v", i, w, res.W)
			}
			if !(w > 0) {
				return bad("weight-not-strictly-positive", "weight[%d]=%v in %v", i, w, res.W)
			}
		}
		if s := c20Sum(res.W); !(math.Abs(s-float64(cs.L)) <= c20SumTol*float64(cs.L)) {
			return bad("sum-not-alignment-length", "weights %v sum to %.17g, alignment length %d", res.W, s, cs.L)
		}
	case "dirichlet", "dirichlet1":
		k := cs.L
		invalid := ""
		allBelow1 := cs.Op == "dirichlet"
		if cs.Op == "dirichlet" {
			k = len(cs.Alpha)
			for _, a := range c20Floats(cs.Alpha) {
				if cl := c20ParamClass(a); cl != "" && invalid == "" {
					invalid = cl
				}
				if !(a < 1) {
					allBelow1 = false
				}
			}
		}
		if invalid == "" && k <= 1 {
			invalid = "fewer-than-2-components"
		}
		if invalid != "" {
			if res.Err == "" {
				return bad("invalid-parameter/"+invalid+"/returned-without-error", "returned sample %v and no error", res.W)
			}
			return "", "", ""
		}
		if k == 2 {
			// a 2-component Dirichlet is a Beta distribution (valid), the code documents that it needs more than 2 values: either answer is defensible
			return "", "", "2-component Dirichlet: valid distribution, documented as rejected"
		}
		if res.Err != "" {
			return bad("error-on-valid-parameters", "error %q", res.Err)
		}
		if len(res.W) != k {
			return bad("sample-length", "%d values for %d parameters", len(res.W), k)
		}
		if s := c20Sum(res.W); !(math.Abs(s-cs.Factor) <= c20SumTol*math.Abs(cs.Factor)) {
			if allBelow1 && tiny {
				// every component has shape < 1 and a draw below 1e-3 was used: u^(1/alpha) may underflow
				// (to 0 or into the denormals) for every component at once; per draw this has probability < 1e-9,
				// DESIGN.md §4/§5 does not claim it
				return "", "", "all shapes < 1 with an answer < 1e-3: simultaneous underflow of every component"
			}
			return bad("sum-not-requested-total", "sample %v sums to %.17g, requested %v", res.W, s, cs.Factor)
		}
	}
	return "", "", ""
}

// ---------------------------------------------------------------- RNG answer trees

func c20Hash(s string) int64 {
	h := fnv.New64a()
	h.Write([]byte(s))
	return int64(h.Sum64() >> 1)
}

func c20Key(i int64, pts []vrt.Point) string {
	b := make([]byte, 0, len(pts)+12)
	b = strconv.AppendInt(b, i, 10)
	b = append(b, '|')
	for _, p := range pts {
		b = append(b, byte('0'+p.Chosen))
	}
	return string(b)
}

func c20Run(c *mc.Ctx, cs c20Case) {
	switch cs.Mode {
	case "det":
		switch cs.Op {
		case "dgamma":
			c20DiscreteGamma(c, cs)
		case "igamma":
			c20IncompleteGamma(c, cs)
		default:
			c.Fatal("unknown deterministic op %s", cs.Op)
		}
		return
	case "seed":
		c20Seed(c, cs)
		return
	}
	if cs.Op == "genrates" {
		c20GenRates(c, cs)
		return
	}
	reps := c20AnswerSets[cs.Answers]
	if reps == nil {
		c.Fatal("unknown answer set %q", cs.Answers)
		return
	}
	viol := func(clause, desc string, pts []vrt.Point) {
		r := cs
		r.Mode, r.Choices = "leaf", pts
		c.Violation("C20/"+cs.Op+"/"+clause, fmt.Sprintf("%s; case %s answers=[%s] over %v", desc, jsonStr(cs), mc.RenderPoints(pts), reps), r)
	}
	c.Mark(cs)
	ex := &mc.Explorer{
		Ctx:  c,
		Opts: vrt.Options{RandMode: vrt.RandChoice, FloatReps: reps, CatchExit: true, MaxRand: cs.Budget},
		Body: func() any { return c20Apply(cs) },
	}
	var returned, capped, errs, skipped, failed int64
	id := c20Hash(jsonStr(cs))
	ex.Check = func(x *mc.Execution) {
		if ex.Executions%200000 == 0 {
			m := cs
			m.Progress = ex.Executions
			c.Mark(m)
		}
		if x.Exec.RandBudget {
			capped++
			return
		}
		if x.Panic != nil {
			failed++
			if _, ok := x.Panic.(vrt.ExitPanic); ok {
				viol("exit", "the library asked the process to exit", x.Exec.Points)
			} else {
				viol("panic", fmt.Sprint(x.Panic), x.Exec.Points)
			}
			return
		}
		res := x.Result.(c20Res)
		tiny := false
		for _, p := range x.Exec.Points {
			if p.Kind == "float" && reps[p.Chosen] < c20Tiny {
				tiny = true
			}
		}
		clause, desc, skip := c20Leaf(cs, res, tiny)
		switch {
		case skip != "":
			skipped++
			c.Skip(skip)
			return
		case clause != "":
			failed++
			viol(clause, desc, x.Exec.Points)
			if failed >= 50 {
				ex.Stop() // the tree is red already; its remaining leaves are not needed
			}
			return
		}
		if res.Err != "" {
			errs++
		} else {
			returned++
			c.Nontrivial(c20Key(id, x.Exec.Points))
		}
		if ex.Executions%9973 == 1 {
			if !ex.Deterministic(x, func(a, b *mc.Execution) bool {
				return fmt.Sprint(a.Result.(c20Res)) == fmt.Sprint(b.Result.(c20Res))
			}) {
				c.Fatal("replaying answers [%s] of %s gave a different result", x.Choices(), jsonStr(cs))
				ex.Stop()
			}
		}
		if ex.Executions == 5 {
			c.Sample(map[string]any{"case": cs, "answers": x.Choices(), "weights": fmt.Sprint(res.W), "error": res.Err})
		}
	}
	if cs.Mode == "leaf" {
		x := ex.RunOnce(cs.Choices)
		c.Eval()
		ex.Executions = 2
		ex.Check(x)
		return
	}
	complete := ex.Explore()
	c.Count("rng_trees", 1)
	c.Count("rng_trees_"+cs.Op, 1)
	c.Count(fmt.Sprintf("rng_exec_%s_%s_k%d", cs.Op, cs.Answers, max(cs.L, len(cs.Alpha))), ex.Executions)
	c.Count("rng_leaves_returned", returned)
	c.Count("rng_leaves_returned_"+cs.Op, returned)
	c.Count("rng_leaves_error_reported", errs)
	c.Count("rng_paths_budget_capped", capped)
	if !complete {
		c.Count("rng_trees_time_capped", 1)
		return
	}
	if returned > 0 {
		c.Outcome(cs.Op + ":sample-returned")
	}
	if errs > 0 {
		c.Outcome(cs.Op + ":error-reported")
	}
	if capped > 0 {
		c.Outcome(cs.Op + ":budget-capped-paths")
	}
	if skipped > 0 {
		c.Outcome(cs.Op + ":skipped-underflow-or-2-components")
	}
	// invalid parameters: the call has to come back with an error.  The other
	// components of these cases have shape 1 and the answer set holds no value
	// the shape-1 sampler redraws, so a valid implementation needs at most one
	// answer per component: a path that exhausts the budget is the sampler
	// spinning on the invalid parameter.
	if cs.Op == "dirichlet" && cs.Answers == "inv" && capped > 0 {
		cl := ""
		for _, a := range c20Floats(cs.Alpha) {
			if k := c20ParamClass(a); k != "" && cl == "" {
				cl = k
			}
		}
		if cl != "" {
			r := cs
			r.Mode = "tree"
			if returned+errs+skipped+failed == 0 {
				c.Violation("C20/dirichlet/invalid-parameter/"+cl+"/never-returns",
					fmt.Sprintf("Dirichlet(%v, %s): none of the %d sequences of up to %d answers over %v lets the call return (no error is reported; it keeps drawing random numbers); case %s",
						cs.Factor, strings.Join(cs.Alpha, ", "), capped, cs.Budget, reps, jsonStr(cs)), r)
			} else {
				// some sequences report the error, others are cut by the budget: a sampler that validates lazily and
				// redraws for the valid components could do that legitimately; no verdict
				c.Skip("invalid Dirichlet parameter: only some answer sequences exhaust the draw budget")
			}
		}
	}
}

// c20GenRates: every sequence of category answers of GenerateRates (discrete gamma).
func c20GenRates(c *mc.Ctx, cs c20Case) {
	c.Mark(cs)
	ex := &mc.Explorer{
		Ctx:  c,
		Opts: vrt.Options{RandMode: vrt.RandChoice, CatchExit: true, MaxRand: 4*cs.L + 8},
		Body: func() any { return c20Apply(cs) },
	}
	rate := map[int]float64{}
	failed := false
	viol := func(clause, desc string, pts []vrt.Point) {
		failed = true
		r := cs
		r.Mode, r.Choices = "leaf", pts
		c.Violation("C20/GenerateRates/"+clause, fmt.Sprintf("%s; case %s answers=[%s]", desc, jsonStr(cs), mc.RenderPoints(pts)), r)
	}
	var leaves int64
	id := c20Hash(jsonStr(cs))
	ex.Check = func(x *mc.Execution) {
		if x.Exec.RandBudget {
			c.Count("rng_paths_budget_capped", 1) // no verdict
			return
		}
		if x.Panic != nil {
			viol("panic", fmt.Sprint(x.Panic), x.Exec.Points)
			return
		}
		res := x.Result.(c20Res)
		// the statement speaks about the categories only: read them off as (label, rate) pairs
		for i := 0; i < len(res.W) && i < len(res.Cat); i++ {
			k := res.Cat[i]
			if old, ok := rate[k]; ok && old != res.W[i] {
				viol("category-rate-not-constant", fmt.Sprintf("category %d has rate %v and %v", k, old, res.W[i]), x.Exec.Points)
				return
			}
			rate[k] = res.W[i]
			if !(res.W[i] >= 0) || math.IsInf(res.W[i], 0) {
				viol("rate-negative-or-not-finite", fmt.Sprintf("rate %v of category %d", res.W[i], k), x.Exec.Points)
				return
			}
		}
		leaves++
		c.Nontrivial(c20Key(id, x.Exec.Points))
	}
	if cs.Mode == "leaf" {
		x := ex.RunOnce(cs.Choices)
		c.Eval()
		ex.Check(x)
		return
	}
	complete := ex.Explore()
	c.Count("rng_trees", 1)
	c.Count("rng_trees_genrates", 1)
	c.Count("rng_leaves_returned", leaves)
	c.Count("rng_leaves_returned_genrates", leaves)
	if !complete || failed {
		return
	}
	c.Outcome(fmt.Sprintf("genrates:categories-seen-%d-of-%d", len(rate), cs.Ncat))
	// the categories that were drawn, in index order: non-decreasing; all of them: mean 1
	r := cs
	r.Mode = "tree"
	var ks []int
	for k := range rate {
		ks = append(ks, k)
	}
	sort.Ints(ks)
	sum := 0.0
	for i, k := range ks {
		sum += rate[k]
		if i > 0 && rate[k] < rate[ks[i-1]]-c20OrderTol {
			c.Violation("C20/GenerateRates/categories-not-non-decreasing", fmt.Sprintf("category %d has rate %v, category %d has rate %v; case %s", ks[i-1], rate[ks[i-1]], k, rate[k], jsonStr(cs)), r)
			return
		}
	}
	if len(ks) == cs.Ncat {
		if mean := sum / float64(cs.Ncat); !(math.Abs(mean-1) <= c20MeanTol) {
			c.Violation("C20/GenerateRates/categories-do-not-average-to-1", fmt.Sprintf("the %d category rates drawn %v average to %.12g; case %s", cs.Ncat, rate, mean, jsonStr(cs)), r)
		}
	}
}

// c20Seed: the real math/rand stream for an enumerated seed (pass-through mode).
func c20Seed(c *mc.Ctx, payload c20Case) {
	c.Mark(payload)
	c.Eval()
	cs := payload
	if cs.Long > 0 {
		cs.Alpha = make([]string, cs.Long)
		for i := range cs.Alpha {
			cs.Alpha[i] = "1"
		}
		if cs.Bad != "" && cs.BadAt >= 0 && cs.BadAt < cs.Long {
			cs.Alpha[cs.BadAt] = cs.Bad
		}
	}
	var res c20Res
	var kept, snap [][]float64
	vrt.CatchExitAlways.Store(true)
	pn, msg, exited := mc.GuardExit(func() {
		if cs.Procs > 0 {
			defer runtime.GOMAXPROCS(runtime.GOMAXPROCS(cs.Procs))
		}
		rand.Seed(cs.Seed)
		for _, l := range cs.Prior {
			prior := cs
			prior.L = l
			pr := c20Apply(prior)
			kept = append(kept, pr.W)
			snap = append(snap, append([]float64{}, pr.W...))
		}
		res = c20Apply(cs)
	})
	// a sample handed out earlier belongs to its caller: it reads as before after the later calls
	for i := range kept {
		for j := range kept[i] {
			if kept[i][j] != snap[i][j] && !(math.IsNaN(kept[i][j]) && math.IsNaN(snap[i][j])) {
				c.Violation("C20/"+cs.Op+"/earlier-sample-changed-by-later-call", fmt.Sprintf("value %d of the sample drawn by call %d (length %d) was %v and reads %v after the later calls; seeded case %s", j, i, cs.Prior[i], snap[i][j], kept[i][j], jsonStr(payload)), payload)
				return
			}
		}
	}

	if pn {
		c.Violation("C20/"+cs.Op+"/panic/"+mc.PanicSite(msg), msg+"; seeded case "+jsonStr(payload), payload)
		return
	}
	if exited {
		c.Violation("C20/"+cs.Op+"/exit", "the library asked the process to exit; seeded case "+jsonStr(payload), payload)
		return
	}
	clause, desc, skip := c20Leaf(cs, res, true)
	if skip != "" {
		c.Skip(skip)
		return
	}
	if clause != "" {
		if len(cs.Prior) > 0 {
			clause += "/after-earlier-calls" // its payload carries the call history: replayable on its own
		}
		c.Violation("C20/"+cs.Op+"/"+clause, desc+"; seeded case "+jsonStr(payload), payload)
		return
	}
	c.Count("seeded_runs", 1)
	c.Nontrivial("seed|" + jsonStr(payload))
	c.Outcome(cs.Op + ":seeded-ok")
}

// ---------------------------------------------------------------- deterministic part

const (
	c20MeanTol   = 1e-6 // |mean of the categories - 1|
	c20OrderTol  = 1e-9 // a later category may be smaller than an earlier one by at most this (rounding)
	c20SeriesAbs = 1e-7 // |IncompleteGamma - series definition|
	// a call of IncompleteGamma is a few hundred floating point operations; one that has not returned after
	// this long is in a loop whose exit test cannot become true any more (seven orders of magnitude of margin)
	c20ReturnDeadline = 30 * time.Second
	c20SeriesRel      = 1e-5 // and relative, where the value is representable well above the denormals
)

func c20DiscreteGamma(c *mc.Ctx, cs c20Case) {
	alpha := c20F(cs.Alpha[0])
	c.Mark(cs)
	c.Eval()
	var r []float64
	if pn, msg := mc.Guard(func() { r = models.DiscreteGamma(alpha, cs.Ncat) }); pn {
		c.Violation("C20/DiscreteGamma/panic/"+mc.PanicSite(msg), msg+"; case "+jsonStr(cs), cs)
		return
	}
	viol := func(clause, f string, a ...any) {
		c.Violation("C20/DiscreteGamma/"+clause, fmt.Sprintf(f, a...)+fmt.Sprintf("; DiscreteGamma(%v, %d) = %v", alpha, cs.Ncat, r), cs)
	}
	if len(r) != cs.Ncat {
		viol("category-count", "%d categories", len(r))
		return
	}
	// the categories are a function of (shape, count): a second and a third call with the same arguments, and a
	// call after one with other arguments, give the same values
	for k, pre := range []func(){nil, nil, func() { models.DiscreteGamma(alpha*1.5+0.1, cs.Ncat+1) }} {
		var again []float64
		if pn, msg := mc.Guard(func() {
			if pre != nil {
				pre()
			}
			again = models.DiscreteGamma(alpha, cs.Ncat)
		}); pn {
			c.Violation("C20/DiscreteGamma/panic/"+mc.PanicSite(msg), msg+"; repeated call; case "+jsonStr(cs), cs)
			return
		}
		same := len(again) == len(r)
		for i := 0; same && i < len(r); i++ {
			same = again[i] == r[i] || (math.IsNaN(again[i]) && math.IsNaN(r[i]))
		}
		if !same {
			viol("repeated-call-differs", "call #%d with the same arguments gives %v", k+2, again)
			return
		}
	}
	sum := 0.0
	for i, x := range r {
		if math.IsNaN(x) || math.IsInf(x, 0) {
			viol("category-not-finite", "category %d = %v", i, x)
			return
		}
		if x < 0 {
			viol("category-negative", "category %d = %v", i, x)
			return
		}
		if i > 0 && x < r[i-1]-c20OrderTol {
			viol("categories-not-non-decreasing", "category %d = %v < category %d = %v", i, x, i-1, r[i-1])
			return
		}
		sum += x
	}
	if mean := sum / float64(cs.Ncat); !(math.Abs(mean-1) <= c20MeanTol) {
		viol("categories-do-not-average-to-1", "mean %.12g", mean)
		return
	}
	c.Count("dgamma_vectors", 1)
	c.Nontrivial("dg|" + cs.Alpha[0] + "|" + strconv.Itoa(cs.Ncat))
	switch {
	case alpha < 1:
		c.Outcome("dgamma:ok:shape<1")
	case alpha == 1:
		c.Outcome("dgamma:ok:shape=1")
	default:
		c.Outcome("dgamma:ok:shape>1")
	}
	if cs.Ncat == 4 {
		c.Sample(map[string]any{"case": cs, "categories": r})
	}
}

// c20SeriesP evaluates the regularised lower incomplete gamma function from its
// series definition  P(a,x) = x^a e^-x  sum_{n>=0} x^n / Gamma(a+n+1).
// All terms are positive; they are summed outwards from the largest one, each
// obtained from its neighbour, the largest one from math.Lgamma.
func c20SeriesP(a, x float64) float64 {
	if x == 0 {
		return 0
	}
	if x > 1e6 && a <= 1000 {
		// the upper tail 1-P is below x^a e^-x < e^(-x/2) here: P is 1 to more than 300 decimals (the sum
		// below would need x terms and loses its leading term to cancellation)
		return 1
	}
	n0 := math.Floor(x - a)
	if n0 < 0 {
		n0 = 0
	}
	lg, _ := math.Lgamma(a + n0 + 1)
	t0 := math.Exp((a+n0)*math.Log(x) - x - lg)
	sum := t0
	t := t0
	for n := n0; ; n++ { // upwards: t(n+1) = t(n) * x/(a+n+1)
		t *= x / (a + n + 1)
		sum += t
		if t <= 1e-20*sum && x < a+n+1 {
			break
		}
	}
	t = t0
	for n := n0; n > 0; n-- { // downwards: t(n-1) = t(n) * (a+n)/x
		t *= (a + n) / x
		sum += t
		if t <= 1e-20*sum {
			break
		}
	}
	return sum
}

func c20XGrid(a float64) []float64 {
	set := map[float64]bool{0: true, 1: true, a: true}
	for k := -48; k <= 24; k++ {
		set[math.Pow(10, float64(k)/4)] = true
	}
	// far below the grid: tiny normal and subnormal x (for small shapes x^a is still far from 0 there)
	for _, k := range []int{-13, -14, -15, -16, -17, -18, -20, -25, -30, -40, -50, -75, -100, -150, -200, -250, -300} {
		set[math.Pow(10, float64(k))] = true
	}
	for _, x := range []float64{2.2250738585072014e-308, 2.2250738585072009e-308, 1e-310, 1e-320, 5e-324} {
		set[x] = true
	}
	// far above the grid, up to the largest double: x^a e^-x underflows, x*x overflows beyond 1.34e154
	for _, x := range []float64{1e7, 1e8, 1e10, 1e12, 1e15, 1e20, 1e30, 1e50, 1e100, 1e150, 1e153, 1e154, 1.3e154, 1.4e154, 1e155, 1e160, 1e200, 1e300, math.MaxFloat64} {
		set[x] = true
	}
	for _, ctr := range []float64{1, a} { // both sides of the two tests that select series / continued fraction
		for _, d := range []float64{1e-3, 1e-2, 1e-1} {
			set[ctr*(1-d)] = true
			set[ctr*(1+d)] = true
		}
	}
	var xs []float64
	for x := range set {
		xs = append(xs, x)
	}
	sort.Float64s(xs)
	return xs
}

func c20IncompleteGamma(c *mc.Ctx, cs c20Case) {
	a := c20F(cs.Alpha[0])
	lg, _ := math.Lgamma(a)
	prev, prevX := math.Inf(-1), 0.0
	maxAbs, maxRel := 0.0, 0.0
	for _, x := range c20XGrid(a) {
		pt := cs
		pt.Factor = x
		c.Mark(pt)
		c.Eval()
		var got float64
		var res float64 // written by the call's own goroutine; read only once it has returned
		returned, pn, msg := mc.GuardReturns(func() { res = models.IncompleteGamma(x, a, lg) }, c20ReturnDeadline)
		if !returned {
			c.Violation("C20/IncompleteGamma/does-not-return", fmt.Sprintf("IncompleteGamma(x=%v, alpha=%v, lnGamma(alpha)=%v) has not returned after %v (a call takes microseconds)", x, a, lg, c20ReturnDeadline), pt)
			return
		}
		got = res
		if pn {
			c.Violation("C20/IncompleteGamma/panic/"+mc.PanicSite(msg), fmt.Sprintf("%s; IncompleteGamma(x=%v, alpha=%v, lnGamma(alpha)=%v)", msg, x, a, lg), cs)
			return
		}
		call := fmt.Sprintf("IncompleteGamma(x=%v, alpha=%v, lnGamma(alpha)=%v) = %.17g", x, a, lg, got)
		if !(got >= 0 && got <= 1) {
			c.Violation("C20/IncompleteGamma/value-outside-0-1", call, cs)
			return
		}
		if got < prev-c20OrderTol {
			c.Violation("C20/IncompleteGamma/not-monotone-in-x", fmt.Sprintf("%s but at the smaller x=%v the value is %.17g", call, prevX, prev), cs)
			return
		}
		want := c20SeriesP(a, x)
		d := math.Abs(got - want)
		rel := 0.0
		if want > 1e-290 {
			rel = d / want
		}
		if !(d <= c20SeriesAbs) {
			branch := "series-branch"
			if x > 1 && x >= a {
				branch = "continued-fraction-branch"
			}
			c.Violation("C20/IncompleteGamma/differs-from-series-definition/"+branch, fmt.Sprintf("%s, the series x^a e^-x sum x^n/Gamma(a+n+1) gives %.17g (difference %.3g)", call, want, d), cs)
			return
		}
		if !(rel <= c20SeriesRel) {
			c.Violation("C20/IncompleteGamma/differs-from-series-definition/relative", fmt.Sprintf("%s, the series x^a e^-x sum x^n/Gamma(a+n+1) gives %.17g (relative difference %.3g)", call, want, rel), cs)
			return
		}
		maxAbs, maxRel = math.Max(maxAbs, d), math.Max(maxRel, rel)
		prev, prevX = got, x
		c.Count("igamma_points", 1)
		c.Nontrivial("ig|" + cs.Alpha[0] + "|" + c20S(x))
		branch := "series"
		if x > 1 && x >= a {
			branch = "continued-fraction"
		}
		switch {
		case got == 0:
			c.Outcome("igamma:" + branch + ":0")
		case got == 1:
			c.Outcome("igamma:" + branch + ":1")
		default:
			c.Outcome("igamma:" + branch + ":inside")
		}
	}
	// observed discrepancy, kept in the evidence (max over tasks is not available: worst decade as a counter name)
	c.Count(fmt.Sprintf("igamma_max_abs_diff_1e%d", c20Decade(maxAbs)), 1)
	c.Count(fmt.Sprintf("igamma_max_rel_diff_1e%d", c20Decade(maxRel)), 1)
}

func c20Decade(v float64) int {
	if v <= 0 {
		return -99
	}
	return int(math.Ceil(math.Log10(v)))
}

// ---------------------------------------------------------------- the bound

var c20Shapes9 = []float64{0.01, 0.2, 0.5, 0.99, 1, 1.01, 2, 10, 100}

func c20ShapeLattice(tier string) []float64 {
	set := map[float64]bool{0.99: true, 1.01: true, 0.999999: true, 1.000001: true, 100: true}
	for _, dec := range []float64{0.01, 0.1, 1, 10} {
		for _, m := range []float64{1, 1.5, 2, 3, 5, 7} {
			set[dec*m] = true
		}
	}
	if tier == "thorough" {
		for i := 0; i <= 400; i++ {
			v := math.Pow(10, -2+float64(i)/100)
			if v >= 0.01 && v <= 100 {
				set[v] = true
			}
		}
	}
	var out []float64
	for v := range set {
		// decimal noise of dec*m (0.15000000000000002) is harmless: any float in [0.01,100] is a legitimate shape
		out = append(out, v)
	}
	sort.Float64s(out)
	return out
}

type c20Weighted struct {
	cs   c20Case
	cost float64
	cls  string
}

// c20Cases lists every case of a tier together with a rough cost (executions).
func c20Cases(tier string) []c20Weighted {
	thorough := tier == "thorough"
	var out []c20Weighted
	add := func(cls string, cost float64, cs c20Case) {
		if cs.Mode == "" {
			cs.Mode = "tree"
		}
		out = append(out, c20Weighted{cs, cost, cls})
	}
	extra := 2
	if thorough {
		extra = 4
	}
	pw := func(r, n int) float64 { return math.Pow(float64(r), float64(n)) }

	// (1) invalid Dirichlet parameters (other components have shape 1; answer set "inv" has no redrawn value)
	for _, inv := range []float64{math.NaN(), math.Inf(1), 0, math.Copysign(0, -1), -1, -0.5, math.Inf(-1)} {
		for pos := 0; pos < 3; pos++ {
			al := []float64{1, 1, 1}
			al[pos] = inv
			add("invalid", pw(3, 10), c20Case{Op: "dirichlet", Factor: 1, Alpha: c20Strs(al...), Answers: "inv", Budget: 10})
		}
		add("invalid", pw(3, 10), c20Case{Op: "dirichlet", Factor: 4, Alpha: c20Strs(1, 1, inv, 1), Answers: "inv", Budget: 10})
		add("invalid", 10, c20Case{Op: "dirichlet", Factor: 1, Alpha: c20Strs(inv, inv, inv), Answers: "inv", Budget: 10})
	}
	for _, al := range [][]float64{{}, {1}, {2.5}, {1, 1}, {0.5, 2}} {
		add("invalid", 10, c20Case{Op: "dirichlet", Factor: 1, Alpha: c20Strs(al...), Answers: "inv", Budget: 10})
	}
	for _, n := range []int{-3, -1, 0, 1, 2} {
		add("invalid", 10, c20Case{Op: "dirichlet1", Factor: 1, L: n, Answers: "inv", Budget: 10})
	}

	// (2) weight vectors
	// BuildWeightsDirichlet: one answer per site unless redrawn
	for L := 3; L <= 5; L++ {
		for _, as := range []string{"mid", "ext", "low", "high"} {
			add("wdirichlet", pw(len(c20AnswerSets[as]), L)*30, c20Case{Op: "wdirichlet", L: L, Answers: as, Budget: L + 2 + extra})
		}
		if L <= 4 || thorough {
			add("wdirichlet", pw(9, L+2)/2, c20Case{Op: "wdirichlet", L: L, Answers: "all9", Budget: L + 2})
		}
	}
	if thorough {
		add("wdirichlet", pw(9, 7)/2, c20Case{Op: "wdirichlet", L: 6, Answers: "all9", Budget: 7})
	}
	// BuildWeightsGamma: two answers per site unless rejected
	type wg struct {
		L  int
		as string
		e  int
	}
	wgs := []wg{{3, "mid", 4}, {3, "ext", 4}, {3, "low", 2}, {3, "high", 2}, {3, "six", 2}, {4, "mid", 2}, {4, "ext", 2}, {4, "low", 2}, {4, "high", 2}, {5, "mid", 2}, {5, "ext", 2}}
	if thorough {
		wgs = []wg{{3, "mid", 6}, {3, "ext", 6}, {3, "low", 4}, {3, "high", 4}, {3, "six", 2}, {3, "all9", 1}, {4, "mid", 4}, {4, "ext", 4}, {4, "low", 2}, {4, "high", 2}, {4, "six", 1}, {5, "mid", 2}, {5, "ext", 2}, {5, "low", 1}, {5, "high", 1}}
	}
	for _, w := range wgs {
		add("wgamma", pw(len(c20AnswerSets[w.as]), 2*w.L+w.e)/2, c20Case{Op: "wgamma", L: w.L, Answers: w.as, Budget: 2*w.L + w.e})
	}
	for L := 6; L <= 8; L++ {
		if L > 6 && !thorough {
			break
		}
		add("wdirichlet", pw(3, L+2), c20Case{Op: "wdirichlet", L: L, Answers: "ext", Budget: L + 2})
		add("wgamma", pw(2, 2*L+2), c20Case{Op: "wgamma", L: L, Answers: "pair", Budget: 2*L + 2})
	}

	// Dirichlet1: nvalues-1 answers, never redrawn
	factors := []float64{1, 3, 0.25, 1000}
	for n := 3; n <= 6; n++ {
		for fi, f := range factors {
			for _, as := range []string{"mid", "low", "high", "all9"} {
				R := len(c20AnswerSets[as])
				add("dirichlet1", pw(R, n-1), c20Case{Op: "dirichlet1", Factor: f, L: n, Answers: as, Budget: n - 1 + fi%2})
			}
		}
	}

	// (3) GenerateRates: every sequence of category answers
	maxCat, maxSites := 4, 3
	if thorough {
		maxCat, maxSites = 6, 4
	}
	for _, a := range c20Shapes9 {
		for ncat := 2; ncat <= maxCat; ncat++ {
			for ns := 1; ns <= maxSites; ns++ {
				add("genrates", pw(ncat, ns), c20Case{Op: "genrates", L: ns, Alpha: c20Strs(a), Ncat: ncat})
			}
		}
	}

	// (4) deterministic lattice
	lat := c20ShapeLattice(tier)
	for _, a := range lat {
		for ncat := 2; ncat <= 32; ncat++ {
			add("dgamma", 300, c20Case{Op: "dgamma", Alpha: c20Strs(a), Ncat: ncat, Mode: "det"})
		}
	}
	seen := map[float64]bool{}
	for _, a := range lat {
		for _, s := range []float64{a, a + 1} { // DiscreteGamma evaluates the ratio at shape+1
			if !seen[s] {
				seen[s] = true
				add("igamma", 30000, c20Case{Op: "igamma", Alpha: c20Strs(s), Mode: "det"})
			}
		}
	}

	// (5) the real stream for enumerated seeds
	nseeds := int64(16)
	if thorough {
		nseeds = 128
	}
	for seed := int64(0); seed < nseeds; seed++ {
		for _, L := range []int{3, 4, 5, 10, 100, 1000} {
			if seed < 2 {
				// call histories: the same operation for longer, then shorter, inputs first
				for _, prior := range [][]int{{L + 7}, {100, 3}, {3}, {L, L + 1}} {
					for _, op := range []string{"wgamma", "wdirichlet", "dirichlet1"} {
						add("seed", 300+float64(L), c20Case{Op: op, L: L, Factor: factors[int(seed)%4], Seed: seed, Prior: prior, Mode: "seed"})
					}
				}
			}
			add("seed", 200+float64(L), c20Case{Op: "wgamma", L: L, Seed: seed, Mode: "seed"})
			add("seed", 200+float64(L), c20Case{Op: "wdirichlet", L: L, Seed: seed, Mode: "seed"})
			add("seed", 200+float64(L), c20Case{Op: "dirichlet1", L: L, Factor: factors[int(seed)%4], Seed: seed, Mode: "seed"})
		}
		// long parameter vectors (4095..4097, 5000, 9000 components) with one invalid component at the front, in
		// the middle, at a block border, at the end - and without any -, with 1, 2, 3, 16 processors: an invalid
		// parameter is reported whatever the length of the vector and the number of workers drawing it
		if seed == 1 {
			for _, n := range []int{4095, 4096, 4097, 5000, 9000} {
				for _, procs := range []int{1, 2, 3, 16} {
					add("seed", 5000, c20Case{Op: "dirichlet", Factor: 1, Long: n, Seed: seed, Procs: procs, Mode: "seed"})
					for _, bad := range []string{"0", "-1", "NaN", "+Inf"} {
						for _, at := range []int{0, 1, n / 2, 2048, n - 2, n - 1} {
							add("seed", 5000, c20Case{Op: "dirichlet", Factor: 1, Long: n, BadAt: at, Bad: bad, Seed: seed, Procs: procs, Mode: "seed"})
						}
					}
				}
			}
		}
		// length sweep: every length 3..300 and the neighbourhoods of the powers of two and of
		// multiples of 1024 (block-wise summation, buffer growth and loop-unrolling boundaries)
		if seed < 2 || (thorough && seed < 8) {
			var sweep []int
			for L := 3; L <= 300; L++ { // the property is stated for lengths >= 3
				sweep = append(sweep, L)
			}
			for _, b := range []int{512, 1024, 2048, 3072, 4096, 8192} {
				sweep = append(sweep, b-1, b, b+1)
			}
			for _, L := range sweep {
				switch L {
				case 3, 4, 5, 10, 100, 1000:
					continue
				}
				for _, op := range []string{"wgamma", "wdirichlet", "dirichlet1"} {
					add("seed", 200+float64(L), c20Case{Op: op, L: L, Factor: factors[(int(seed)+L)%4], Seed: seed, Mode: "seed"})
				}
			}
		}
		for i, a := range c20Shapes9 {
			for j, b := range c20Shapes9 {
				add("seed", 200, c20Case{Op: "dirichlet", Factor: factors[(i+j)%4], Alpha: c20Strs(a, b, c20Shapes9[(i+j+int(seed))%9]), Seed: seed, Mode: "seed"})
			}
			al := make([]float64, 12)
			for k := range al {
				al[k] = a
			}
			add("seed", 200, c20Case{Op: "dirichlet", Factor: 12, Alpha: c20Strs(al...), Seed: seed, Mode: "seed"})
		}
	}

	// (6) Dirichlet samples for every ordered triple of the 9 shapes, 4 requested totals
	draws := func(al ...float64) int { // answers consumed when nothing is redrawn
		n := 0
		for _, a := range al {
			if a == 1 {
				n++
			} else {
				n += 2
			}
		}
		return n
	}
	idx := 0
	for _, a := range c20Shapes9 {
		for _, b := range c20Shapes9 {
			for _, d := range c20Shapes9 {
				base := draws(a, b, d)
				for ai, as := range []string{"mid", "ext", "small", "low", "high"} {
					R := len(c20AnswerSets[as])
					e := 2 // quick: 3-answer sets
					switch {
					case thorough && R == 3:
						e = 5
					case thorough:
						e = 2
					case R == 4:
						e = 1
					}
					add("dirichlet", pw(R, base+e)/3, c20Case{Op: "dirichlet", Factor: factors[(idx+ai)%4], Alpha: c20Strs(a, b, d), Answers: as, Budget: base + e})
				}
				idx++
			}
		}
	}
	// 4 and 5 components
	for _, a := range c20Shapes9 {
		for _, b := range []float64{0.5, 1, 2} {
			add("dirichlet", pw(3, draws(a, b, a, b)+2)/3, c20Case{Op: "dirichlet", Factor: 4, Alpha: c20Strs(a, b, a, b), Answers: "mid", Budget: draws(a, b, a, b) + 2})
			if thorough {
				add("dirichlet", pw(3, draws(a, b, 1, b, a)+2)/3, c20Case{Op: "dirichlet", Factor: 5, Alpha: c20Strs(a, b, 1, b, a), Answers: "ext", Budget: draws(a, b, 1, b, a) + 2})
			}
		}
	}
	if thorough {
		five := []float64{0.2, 0.99, 1, 2, 100}
		for _, a := range five {
			for _, b := range five {
				for _, d := range five {
					for _, e := range five {
						add("dirichlet", pw(3, draws(a, b, d, e)+2)/3, c20Case{Op: "dirichlet", Factor: 2, Alpha: c20Strs(a, b, d, e), Answers: "ext", Budget: draws(a, b, d, e) + 2})
					}
				}
			}
		}
	}
	return out
}

func c20Tasks(tier string) []mc.Task {
	cases := c20Cases(tier)
	total := 0.0
	for _, w := range cases {
		total += w.cost
	}
	target := total / 600
	var ts []mc.Task
	var cur []c20Case
	curCost, curCls := 0.0, ""
	flush := func() {
		if len(cur) == 0 {
			return
		}
		group := cur
		ts = append(ts, mc.Task{Name: fmt.Sprintf("%s#%d", curCls, len(ts)), Run: func(c *mc.Ctx) {
			for _, cs := range group {
				if c.Expired() {
					return
				}
				c20Run(c, cs)
			}
		}})
		cur, curCost = nil, 0
	}
	for _, w := range cases {
		if len(cur) > 0 && (w.cls != curCls || curCost+w.cost > target) {
			flush()
		}
		curCls = w.cls
		cur = append(cur, w.cs)
		curCost += w.cost
	}
	flush()
	return ts
}

func init() {
	mc.Register(&mc.Prop{
		ID:    "C20",
		Level: "model_checking",
		Rule: "Command line: goalign build weightboot -n 1,2,5 on alignments of 3..2000 sites, to standard output, a file and a .gz file: as many lines as vectors, one strictly positive finite weight per site, each line summing to the alignment length (to the printed precision). Free-running complement: DiscreteGamma / IncompleteGamma called by 8 goroutines at once give the values of the same calls made alone, under the race detector. " + "RNG part - each rand.Float64 answer is a choice point offering every value of a stated answer set (values k/2^53, as rand.Float64 returns them: mid={.1,.5,.9}; ext={first value >1e-7, .5, last value <.9999999}; low={0, last value <=1e-7, first value >1e-7, .5}; high={.5, last value <.9999999, .9999999, 1-2^-53}; small={1e-3,.5,.999}; six={last value <=1e-7, first value >1e-7, .1,.5,.9, last value <.9999999}; pair={.3,.8}; inv={.3,.6,.9}; all9=union of mid,low,high) and EVERY sequence of answers of total length <= the case's draw budget is executed (budget = b + e, b = draws of a run in which nothing is redrawn; a path needing more is cut and counted, never judged for valid parameters). " +
			"dna.BuildWeightsDirichlet (b=L): L=3,4,5 x {mid,ext,low,high} e=4 (thorough 6), all9 for L=3,4 (thorough 5) e=2 (thorough also L=6 e=1), L=6 (thorough 6,7,8) under ext e=2. dna.BuildWeightsGamma (b=2L): quick (L,set,e) = (3,mid,4)(3,ext,4)(3,low,2)(3,high,2)(3,six,2)(4,mid,2)(4,ext,2)(4,low,2)(4,high,2)(5,mid,2)(5,ext,2)(6,pair,2); thorough (3,mid,6)(3,ext,6)(3,low,4)(3,high,4)(3,six,2)(3,all9,1)(4,mid,4)(4,ext,4)(4,low,2)(4,high,2)(4,six,1)(5,mid,2)(5,ext,2)(5,low,1)(5,high,1)(6..8,pair,2). " +
			"stats.Dirichlet: every ordered triple of shapes {0.01,0.2,0.5,0.99,1,1.01,2,10,100} (b = 1 per shape-1 component, 2 per other) under mid,ext,small with e=2 (thorough 5) and under low,high with e=1 (thorough 2), requested totals {1,3,0.25,1000} rotating; 27 vectors (a,b,a,b), a in the 9 shapes, b in {.5,1,2}, under mid e=2; thorough also 27 vectors (a,b,1,b,a) and all 625 4-vectors over {0.2,0.99,1,2,100} under ext e=2. stats.Dirichlet1: 3..6 values x 4 totals x {mid,low,high,all9}. " +
			"Invalid parameters: Dirichlet with one component (each position of 3, one of 4) or all 3 components in {NaN,+Inf,0,-0,-1,-0.5,-Inf} next to shape-1 components, with 0 and 1 component, Dirichlet1 with nvalues in {-3,-1,0,1}: every sequence of <=10 answers over inv. models.GenerateRates(discrete gamma) for the 9 shapes x ncat 2..4 (thorough 6) x 1..3 (4) sites with every category answer of rand.Intn. " +
			"Seeded part - the real math/rand stream for seeds 0..15 (thorough 0..127): both weight builders and Dirichlet1 for lengths {3,4,5,10,100,1000}, for seeds 0,1 (thorough 0..7) every length 3..300 and b-1,b,b+1 for b in {512,1024,2048,3072,4096,8192}, also after earlier calls of the same operation for longer / shorter inputs in the same process (4 call histories, seeds 0,1), Dirichlet for 81 shape triples and 9 twelve-component vectors per seed. " +
			"Deterministic part - models.DiscreteGamma for 29 shapes in [0.01,100] ({1,1.5,2,3,5,7}x10^k for k=-2..1, 0.99, 0.999999, 1.000001, 1.01, 100; thorough: plus the 401 shapes 10^(-2+i/100)) x ncat 2..32; models.IncompleteGamma(x, a, lnGamma(a)) for a in those shapes and shapes+1, x in {0} U {10^(k/4), k=-48..24} U {1, a, (1 +- d), a(1 +- d) for d in 1e-3,1e-2,1e-1} U 17 tiny x down to the smallest subnormal U 19 huge x from 1e7 to the largest double (each call must return: one that has not after 30 s - seven orders of magnitude above its cost - is reported as not returning). " +
			"Oracles: weights: one per site, each finite and > 0, |sum-L| <= 1e-9 L; Dirichlet: no error, one value per parameter, |sum-total| <= 1e-9 total; invalid parameters (a component that is not a positive finite real, fewer than 2 components) => an error is returned (a tree in which every answer sequence exhausts the budget without the call returning is a call that never reports the error); categories: finite, >= 0 (exact), r[i+1] >= r[i]-1e-9, |mean-1| <= 1e-6; IncompleteGamma: in [0,1] (exact), non-decreasing along the x grid (1e-9), within 1e-7 absolute and 1e-5 relative of the harness' own summation of x^a e^-x sum_n x^n/Gamma(a+n+1). " +
			"states/transitions are nodes/edges of the RNG choice trees; distinct_nontrivial = distinct (case, answer sequence) leaves that returned a sample which was checked, plus distinct deterministic lattice points and seeded runs.",
		Assumptions: []string{
			"rand.Float64 may return any value k/2^53 of [0,1) in any order (\"all seeds\" is decided as reachability over RNG answers); rand.Intn(n) any value of [0,n)",
			"a Dirichlet sample whose components all have shape < 1 is not judged on a path that consumed an answer < 1e-3: u^(1/alpha) can then underflow for every component at once (probability < 1e-9 per draw), DESIGN.md §5 does not claim this case",
			"a 2-component Dirichlet (a valid Beta distribution that the code documents as rejected) is not judged either way",
			"+Inf and NaN are invalid Dirichlet parameters (the parameters of a Dirichlet distribution are positive reals)",
			"the claims hold on the stated lattices only; nothing is claimed between lattice points",
		},
		Tasks: func(tier string) []mc.Task { return append(c20Tasks(tier), c20CLITasks()...) },
		Post:  func(m *mc.Master) { m.RacePass("gamma"); m.RacePass("first/gamma") },
		Replay: func(c *mc.Ctx, payload json.RawMessage) {
			if c20CLIReplay(c, payload) {
				return
			}
			var cs c20Case
			if err := json.Unmarshal(payload, &cs); err != nil {
				c.Fatal("bad payload: %v", err)
				return
			}
			c20Run(c, cs)
		},
		Vacuity: func(tier string, t *mc.Totals) error {
			for _, k := range []string{"rng_leaves_returned_wgamma", "rng_leaves_returned_wdirichlet", "rng_leaves_returned_dirichlet", "rng_leaves_returned_dirichlet1", "rng_leaves_returned_genrates"} {
				if t.Extra[k] < 1000 {
					return fmt.Errorf("%s = %d", k, t.Extra[k])
				}
			}
			if t.Extra["rng_leaves_error_reported"] < 20 || t.Extra["rng_paths_budget_capped"] < 1000 {
				return fmt.Errorf("error paths %d, redraw paths cut %d", t.Extra["rng_leaves_error_reported"], t.Extra["rng_paths_budget_capped"])
			}
			if t.Extra["dgamma_vectors"] < 29*31 || t.Extra["igamma_points"] < 3000 || t.Extra["seeded_runs"] < 1000 {
				return fmt.Errorf("deterministic part too small: %v", t.Extra)
			}
			if len(t.OutcomeSet) < 15 {
				return fmt.Errorf("only %d outcome classes", len(t.OutcomeSet))
			}
			return nil
		},
	})
}
