package props

import (
	"encoding/json"
	"fmt"
	"math"
	"strconv"
	"strings"

	"verif/harness/mc"

	"github.com/evolbioinfo/goalign/align"
	"github.com/evolbioinfo/goalign/distance/dna"
	"github.com/evolbioinfo/goalign/distance/protein"
	pm "github.com/evolbioinfo/goalign/models/protein"
	"gonum.org/v1/gonum/mat"
)

// Command-line layer of C07 / C08: goalign compute distance must print the matrix (or the average) that
// the library call with the same options returns: -m model, -r, --alpha, --gap-mut, --rm-ambiguous,
// --range1/--range2, -a, -t.  The library matrices are judged by the oracles of c07 and c08; here the
// printed numbers are compared, as printed (%.12f), with the library's.

type c07CLICase struct {
	CLI     bool     `json:"cli_distance"`
	Seqs    []string `json:"seqs"`
	Alpha   string   `json:"alphabet"` // nt | aa
	Model   string   `json:"model"`
	RmGaps  bool     `json:"rmgaps,omitempty"`
	Gamma   bool     `json:"gamma,omitempty"` // --alpha given
	A       float64  `json:"alpha,omitempty"`
	GapMut  int      `json:"gapmut,omitempty"`
	RmAmb   bool     `json:"rmamb,omitempty"`
	Average bool     `json:"average,omitempty"`
	Threads int      `json:"threads,omitempty"`
	Range1  string   `json:"range1,omitempty"`
	Range2  string   `json:"range2,omitempty"`
}

func c07CLIFmt(x float64) string { return fmt.Sprintf("%.12f", x) }

func c07CheckCLI(c *mc.Ctx, box *cliBox, cs c07CLICase) {
	c.Eval()
	viol := func(clause, desc string) {
		c.Violation("C07/cli-distance/"+clause+"/"+cs.Model, fmt.Sprintf("%s: case %s", desc, jsonStr(cs)), cs)
	}
	alphabet := align.NUCLEOTIDS
	if cs.Alpha == "aa" {
		alphabet = align.AMINOACIDS
	}
	al, err := mkAlign(alphabet, namedRows(cs.Seqs...))
	if err != nil {
		c.Fatal("cannot build %s: %v", jsonStr(cs), err)
		return
	}
	threads := max(cs.Threads, 1)
	var lib [][]float64
	var lerr error
	if pn, _ := mc.Guard(func() {
		if id := pm.ModelStringToInt(cs.Model); id != -1 {
			var m *protein.ProtDistModel
			if m, lerr = protein.NewProtDistModel(id, true, cs.Gamma, cs.A, cs.RmGaps); lerr != nil {
				return
			}
			m.InitModel(nil, nil)
			var d *mat.Dense
			if _, _, d, lerr = m.MLDist(al, nil); lerr != nil {
				return
			}
			r, cc := d.Dims()
			lib = make([][]float64, r)
			for i := range lib {
				lib[i] = make([]float64, cc)
				for j := range lib[i] {
					lib[i][j] = d.At(i, j)
				}
			}
			return
		}
		var model dna.DistModel
		switch cs.Model {
		case "rawdist":
			m := dna.NewRawDistModel(cs.RmGaps)
			if lerr = m.SetCountGapMutations(cs.GapMut); lerr != nil {
				return
			}
			model = m
		case "pdist":
			m := dna.NewPDistModel(cs.RmGaps)
			m.SetRemoveAmbiguous(cs.RmAmb)
			if lerr = m.SetCountGapMutations(cs.GapMut); lerr != nil {
				return
			}
			model = m
		default:
			if model, lerr = dna.Model(cs.Model, cs.RmGaps); lerr != nil {
				return
			}
		}
		r := [4]int{-1, -1, -1, -1}
		if cs.Range1 != "" {
			a, b := strings.Split(cs.Range1, ":"), strings.Split(cs.Range2, ":")
			r[0], _ = strconv.Atoi(a[0])
			r[1], _ = strconv.Atoi(a[1])
			r[2], _ = strconv.Atoi(b[0])
			r[3], _ = strconv.Atoi(b[1])
		}
		lib, lerr = dna.DistMatrix(al, nil, model, r[0], r[1], r[2], r[3], cs.Gamma, cs.A, threads)
	}); pn {
		return // reported by the library cases
	}

	box.drop("out.txt")
	if !box.put(c, "in.fa", cliFasta(rowNames, cs.Seqs)) {
		return
	}
	args := []string{"compute", "distance", "-i", "@in.fa", "--alphabet", cs.Alpha, "-o", box.path("out.txt"), "-m", cs.Model, "-t", strconv.Itoa(threads)}
	if cs.RmGaps {
		args = append(args, "-r")
	}
	if cs.Gamma {
		args = append(args, "--alpha", strconv.FormatFloat(cs.A, 'g', -1, 64))
	}
	if cs.GapMut != 0 {
		args = append(args, "--gap-mut", strconv.Itoa(cs.GapMut))
	}
	if cs.RmAmb {
		args = append(args, "--rm-ambiguous")
	}
	if cs.Average {
		args = append(args, "-a")
	}
	if cs.Range1 != "" {
		args = append(args, "--range1", cs.Range1, "--range2", cs.Range2)
	}
	c.Mark(cs)
	cerr, pn, msg, herr := box.run(c, args...)
	if herr {
		return
	}
	if pn {
		viol("panic/"+mc.PanicSite(msg), msg)
		return
	}
	if lerr != nil {
		if cerr == nil {
			viol("library-error-not-reported", fmt.Sprintf("the library refuses the call (%v); the command succeeds", lerr))
			return
		}
		c.Outcome("cli-distance:refused")
		return
	}
	if cerr != nil {
		viol("command-fails", fmt.Sprintf("goalign %s: %v", strings.Join(args, " "), cerr))
		return
	}
	got, ok := box.get("out.txt")
	if !ok {
		viol("no-output", "the command succeeded without writing its output file")
		return
	}
	var want strings.Builder
	if cs.Average {
		sum, n := 0.0, 0
		for i := range lib {
			for j := i + 1; j < len(lib); j++ {
				if !math.IsNaN(lib[i][j]) {
					sum += lib[i][j]
					n++
				}
			}
		}
		want.WriteString(c07CLIFmt(sum/float64(n)) + "\n")
	} else {
		fmt.Fprintf(&want, "%d\n", len(lib))
		for i := range lib {
			want.WriteString(rowNames[i])
			for j := range lib[i] {
				want.WriteString("\t" + c07CLIFmt(lib[i][j]))
			}
			want.WriteString("\n")
		}
	}
	c.Nontrivial(jsonStr(cs))
	if got != want.String() {
		viol("output-differs-from-library", fmt.Sprintf("goalign %s prints %q; the library call with these options gives %q", strings.Join(args[1:], " "), got, want.String()))
		return
	}
	c.Outcome("cli-distance:" + cs.Model + ":same")
}

func c07CLITasks(thorough bool) []mc.Task {
	var ts []mc.Task
	var alns [][]string
	forEachAlignment("AC-", 3, 2, func(seqs []string) bool {
		alns = append(alns, append([]string{}, seqs...))
		return true
	})
	alns = append(alns, []string{"ACGTAC", "ACG-AT", "TCGTNC"}, []string{"-ACGR", "TACGY", "TTCG-"}, []string{"AAAA", "CCCA", "AACA"})
	for _, model := range []string{"rawdist", "pdist", "jc", "k2p", "f81", "f84", "tn93"} {
		model := model
		ts = append(ts, mc.Task{Name: "cli-distance#" + model, Run: func(c *mc.Ctx) {
			box := newCLIBox(c, "c07-cli-")
			if box == nil {
				return
			}
			defer box.close()
			gms := []int{0}
			if model == "rawdist" || model == "pdist" {
				gms = []int{0, 1, 2}
			}
			for _, seqs := range alns {
				for m := 0; m < 8; m++ {
					rm, gamma, avg := m&1 != 0, m&2 != 0, m&4 != 0
					for _, gm := range gms {
						for _, amb := range []bool{false, true} {
							if amb && model != "pdist" {
								continue
							}
							for _, th := range []int{1, 3} {
								if th == 3 && (avg || gm != 0 || amb) {
									continue
								}
								c07CheckCLI(c, box, c07CLICase{CLI: true, Seqs: seqs, Alpha: "nt", Model: model, RmGaps: rm, Gamma: gamma, A: 0.5, GapMut: gm, RmAmb: amb, Average: avg, Threads: th})
							}
						}
					}
					if !avg {
						c07CheckCLI(c, box, c07CLICase{CLI: true, Seqs: seqs, Alpha: "nt", Model: model, RmGaps: rm, Gamma: gamma, A: 0.5, Threads: 1, Range1: "0:1", Range2: "1:2"})
					}
				}
				if c.Expired() {
					return
				}
			}
		}})
	}
	ts = append(ts, mc.Task{Name: "cli-distance#protein", Run: func(c *mc.Ctx) {
		box := newCLIBox(c, "c07-cli-")
		if box == nil {
			return
		}
		defer box.close()
		for _, model := range []string{"lg", "jtt", "wag", "dayhoff", "mtrev", "hivb", "ab"} {
			for _, seqs := range [][]string{{"MAKWLLDE-RST", "MAKWL-DEQRST", "MGKWILNEQRAT"}, {"ARW", "AR-", "WRA"}} {
				for m := 0; m < 8; m++ {
					c07CheckCLI(c, box, c07CLICase{CLI: true, Seqs: seqs, Alpha: "aa", Model: model, RmGaps: m&1 != 0, Gamma: m&2 != 0, A: 0.7, Average: m&4 != 0, Threads: 1})
				}
			}
		}
	}})
	return ts
}

func c07CLIReplay(c *mc.Ctx, payload []byte) bool {
	var cs c07CLICase
	if err := json.Unmarshal(payload, &cs); err != nil || !cs.CLI {
		return false
	}
	box := newCLIBox(c, "c07-cli-")
	if box == nil {
		return true
	}
	defer box.close()
	c07CheckCLI(c, box, cs)
	return true
}
