package props

import (
	"encoding/json"
	"fmt"
	"strconv"
	"strings"

	"verif/harness/mc"

	"github.com/evolbioinfo/goalign/align"
	"github.com/evolbioinfo/goalign/io/fasta"
)

// Command-line layer of C05 (cmd/translate.go): goalign translate --phase p --genetic-code g [--unaligned]
// [--ref-seq r] writes what Translate / TranslateByReference give for that frame and that code (the names
// standard, mitov, mitoi stand for the standard, vertebrate and invertebrate mitochondrial tables).

type c05CLICase struct {
	CLI       bool     `json:"cli_translate"`
	Seqs      []string `json:"seqs"`
	Phase     int      `json:"phase"`
	Code      string   `json:"code"` // "" = flag not given
	Unaligned bool     `json:"unaligned,omitempty"`
	Ref       string   `json:"ref,omitempty"`
}

func c05CheckCLI(c *mc.Ctx, box *cliBox, cs c05CLICase) {
	c.Eval()
	viol := func(clause, desc string) {
		c.Violation("C05/cli-translate/"+clause, fmt.Sprintf("%s: case %s", desc, jsonStr(cs)), cs)
	}
	code := map[string]int{"": align.GENETIC_CODE_STANDARD, "standard": align.GENETIC_CODE_STANDARD, "mitov": align.GENETIC_CODE_VETEBRATE_MITO, "mitoi": align.GENETIC_CODE_INVETEBRATE_MITO}[cs.Code]
	var sb align.SeqBag
	var err error
	if cs.Unaligned {
		sb, err = mkSeqBag(align.NUCLEOTIDS, namedRows(cs.Seqs...))
	} else {
		sb, err = mkAlign(align.NUCLEOTIDS, namedRows(cs.Seqs...))
	}
	if err != nil {
		c.Fatal("cannot build %s: %v", jsonStr(cs), err)
		return
	}
	var lerr error
	if pn, _ := mc.Guard(func() {
		if cs.Ref != "" {
			lerr = sb.(align.Alignment).TranslateByReference(cs.Phase, code, cs.Ref)
		} else {
			lerr = sb.Translate(cs.Phase, code)
		}
	}); pn {
		return
	}
	want := fasta.WriteAlignment(sb)
	box.drop("out.fa")
	if !box.put(c, "in.fa", cliFasta(rowNames, cs.Seqs)) {
		return
	}
	args := []string{"translate", "-i", "@in.fa", "--alphabet", "nt", "-o", box.path("out.fa"), "--phase", strconv.Itoa(cs.Phase)}
	if cs.Code != "" {
		args = append(args, "--genetic-code", cs.Code)
	}
	if cs.Unaligned {
		args = append(args, "--unaligned")
	}
	if cs.Ref != "" {
		args = append(args, "--ref-seq", cs.Ref)
	}
	c.Mark(cs)
	cerr, pn, msg, herr := box.run(c, args...)
	if herr {
		return
	}
	if pn {
		viol("panic/"+mc.PanicSite(msg), msg)
		return
	}
	if (lerr != nil) != (cerr != nil) {
		viol("error-differs-from-library", fmt.Sprintf("library error %v, command error %v (goalign %s)", lerr, cerr, strings.Join(args[1:], " ")))
		return
	}
	if lerr != nil {
		c.Outcome("cli-translate:refused")
		return
	}
	got, _ := box.get("out.fa")
	c.Nontrivial(jsonStr(cs))
	if got != want {
		viol("output-differs-from-library", fmt.Sprintf("goalign %s writes %q; the library call gives %q", strings.Join(args[1:], " "), got, want))
		return
	}
	c.Outcome("cli-translate:same")
}

func c05CLITasks() []mc.Task {
	return []mc.Task{{Name: "cli-translate#all", Run: func(c *mc.Ctx) {
		box := newCLIBox(c, "c05-cli-")
		if box == nil {
			return
		}
		defer box.close()
		// codons on which the three tables differ (AGA, AGG, ATA, TGA), an ambiguous one, gaps, lower case
		sets := [][]string{
			{"ATGAGAAGGATATGATAA", "ATGAGRAGNATATGAT-A"},
			{"atgagaaggatatgataa", "ATGAGAAGGATATGATAA"},
			{"AGATGAATAAGG", "AGA---ATAAGG", "AGATGAATAAG-"},
			{"ATGA"},
		}
		for _, seqs := range sets {
			for _, code := range []string{"", "standard", "mitov", "mitoi"} {
				for _, ph := range []int{0, 1, 2, -1} {
					c05CheckCLI(c, box, c05CLICase{CLI: true, Seqs: seqs, Phase: ph, Code: code})
					c05CheckCLI(c, box, c05CLICase{CLI: true, Seqs: seqs, Phase: ph, Code: code, Unaligned: true})
					if ph >= 0 {
						c05CheckCLI(c, box, c05CLICase{CLI: true, Seqs: seqs, Phase: ph, Code: code, Ref: "a"})
					}
				}
			}
		}
	}}}
}

func c05CLIReplay(c *mc.Ctx, payload []byte) bool {
	var cs c05CLICase
	if err := json.Unmarshal(payload, &cs); err != nil || !cs.CLI {
		return false
	}
	box := newCLIBox(c, "c05-cli-")
	if box == nil {
		return true
	}
	defer box.close()
	c05CheckCLI(c, box, cs)
	return true
}
