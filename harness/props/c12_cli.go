package props

import (
	"fmt"
	"strconv"
	"strings"

	"verif/harness/mc"

	"github.com/evolbioinfo/goalign/align"
	"github.com/evolbioinfo/goalign/io/fasta"
)

// Command-line layer of C12: goalign clean sites / clean seqs must write what the
// library call documented for the same options returns (cmd/cleansites.go,
// cmd/cleanseqs.go wire seven flags to positional bool arguments).  The library
// call is judged by the oracle of c12.go; here the two are compared with each other
// for every option combination on a bounded family of alignments.

var c12Box *cliBox

func c12CLIBox(c *mc.Ctx) *cliBox {
	if c12Box == nil {
		c12Box = newCLIBox(c, "c12-cli-")
	}
	return c12Box
}

func c12DropBox() {
	c12Box.close()
	c12Box = nil
}

// c12Refused: option combinations that cmd/cleansites.go documents as errors.
func c12Refused(cs *c12Case) bool {
	switch cs.Op {
	case "gapsites":
		return cs.IgnoreGaps
	case "charsites":
		if cs.IgnoreNs && strings.ContainsAny(cs.Chars, "Nn") {
			return true
		}
		if cs.IgnoreGaps && strings.Contains(cs.Chars, "-") {
			return true
		}
	}
	return false
}

func c12CheckCLI(c *mc.Ctx, cs *c12Case) {
	c.Eval()
	r := c12Run{c: c, cs: cs}
	alphabet, err := r.init()
	if err != nil || len(cs.Seqs) == 0 || len(cs.Seqs) > len(c12Names) || len(cs.Seqs[0]) == 0 {
		c.Fatal("bad case %s: %v", jsonStr(cs), err)
		return
	}
	viol := func(clause, desc string) {
		c.Violation("C12/cli-"+cs.Op+"/"+clause, fmt.Sprintf("%s: case %s", desc, jsonStr(cs)), cs)
	}
	// the library call
	al := align.NewAlign(alphabet)
	for i, s := range cs.Seqs {
		if err := al.AddSequence(c12Names[i], s, ""); err != nil {
			c.Fatal("cannot build %s: %v", jsonStr(cs), err)
			return
		}
	}
	var kept, rm []int
	sites := !r.p.seqwise
	pn, msg := mc.Guard(func() {
		switch r.opi {
		case 0:
			_, _, kept, rm = al.RemoveGapSites(cs.Cutoff, cs.Ends)
		case 1:
			_, _, kept, rm = al.RemoveCharacterSites([]uint8(cs.Chars), cs.Cutoff, cs.Ends, cs.IgnoreCase, cs.IgnoreGaps, cs.IgnoreNs, cs.Reverse)
		case 2:
			_, _, kept, rm = al.RemoveMajorityCharacterSites(cs.Cutoff, cs.Ends, cs.IgnoreGaps, cs.IgnoreNs)
		case 3:
			al.RemoveGapSeqs(cs.Cutoff, cs.IgnoreNs)
		case 4:
			al.RemoveCharacterSeqs(cs.Chars[0], cs.Cutoff, cs.IgnoreCase, cs.IgnoreGaps, cs.IgnoreNs)
		}
	})
	if pn {
		return // the library panic is reported by the library cases
	}
	want := fasta.WriteAlignment(al)

	// the command
	box := c12CLIBox(c)
	if box == nil {
		return
	}
	box.drop("out.fa", "kept.txt", "rm.txt")
	if !box.put(c, "in.fa", cliFasta(c12Names, cs.Seqs)) {
		return
	}
	sub := "sites"
	if !sites {
		sub = "seqs"
	}
	char := cs.Chars
	switch cs.Op {
	case "gapsites", "gapseqs":
		char = "GAP"
	case "majsites":
		char = "MAJ"
	}
	args := []string{"clean", sub, "-i", "@in.fa", "--alphabet", cliAlphaFlag(alphabet), "-o", box.path("out.fa"), "-q",
		"--cutoff=" + strconv.FormatFloat(cs.Cutoff, 'g', -1, 64), "--char=" + char}
	if sites {
		args = append(args, "--positions", box.path("kept.txt"), "--positions-rm", box.path("rm.txt"))
		if cs.Ends {
			args = append(args, "--ends")
		}
		if cs.Reverse {
			args = append(args, "--reverse")
		}
	}
	if cs.IgnoreCase {
		args = append(args, "--ignore-case")
	}
	if cs.IgnoreGaps {
		args = append(args, "--ignore-gaps")
	}
	if cs.IgnoreNs {
		args = append(args, "--ignore-n")
	}
	c.Mark(cs)
	cerr, pn, msg, herr := box.run(c, args...)
	if herr {
		return
	}
	if pn {
		viol("panic/"+mc.PanicSite(msg), msg)
		return
	}
	if cerr != nil {
		if c12Refused(cs) {
			c.Outcome("cli:" + cs.Op + ":refused")
			return
		}
		viol("command-fails", fmt.Sprintf("goalign %s: %v", strings.Join(args, " "), cerr))
		return
	}
	got, ok := box.get("out.fa")
	if !ok {
		viol("no-output", "the command succeeded without writing its output file")
		return
	}
	c.Nontrivial(c12Key(cs) + "|cli")
	if got != want {
		viol("output-differs-from-library", fmt.Sprintf("goalign %s writes %q; the library call with these options gives %q", strings.Join(args[1:], " "), got, want))
		return
	}
	if sites {
		for _, f := range []struct {
			file string
			want []int
			what string
		}{{"kept.txt", kept, "positions"}, {"rm.txt", rm, "positions-rm"}} {
			txt, ok := box.get(f.file)
			lines, ok2 := cliIntLines(txt)
			if !ok || !ok2 || !cliSameInts(lines, f.want) {
				viol(f.what+"-differ-from-library", fmt.Sprintf("--%s holds %q; the library call returns %v", f.what, txt, f.want))
				return
			}
		}
	}
	c.Outcome("cli:" + cs.Op + ":same")
}

// c12CLITasks: every option combination x cutoffs x a bounded family of alignments.
func c12CLITasks(thorough bool) []mc.Task {
	var ts []mc.Task
	cuts := []float64{0, 0.5, 1, -1, 1.5, 1.0 / 3}
	for _, alpha := range []string{"nt", "aa"} {
		alpha := alpha
		// alignments: every 2x2 over {A,a,-,W} (thorough: {A,a,-,W,w,O}) and some larger ones
		sigma := "Aa-W"
		if thorough {
			sigma = c12Sigma6
		}
		var alns [][]string
		forEachAlignment(sigma, 2, 2, func(seqs []string) bool {
			x := make([]string, len(seqs))
			for i := range seqs {
				x[i] = c12Concrete(seqs[i], alpha)
			}
			alns = append(alns, x)
			return true
		})
		for _, sp := range [][]string{
			{"-A-A-", "-AW--", "--A--"},
			{"WAA-a", "wA--A", "OA-AA", "-a-A-"},
			{"A-W", "-A-", "W-A"},
			{"--AA--", "-WAa--", "---A-W"},
		} {
			x := make([]string, len(sp))
			for i := range sp {
				x[i] = c12Concrete(sp[i], alpha)
			}
			alns = append(alns, x)
		}
		type opt struct {
			op    string
			chars string
		}
		w := c12Concrete("W", alpha)
		opts := []opt{{"gapsites", ""}, {"majsites", ""}, {"charsites", "A"}, {"charsites", "a" + w}, {"charsites", "A-"}, // "-" alone is GAP for the command
			{"gapseqs", ""}, {"charseqs", "A"}, {"charseqs", w}, {"charseqs", "a"}}
		for _, o := range opts {
			o := o
			ts = append(ts, mc.Task{Name: fmt.Sprintf("cli#%s/%s/%s", alpha, o.op, o.chars), Run: func(c *mc.Ctx) {
				defer c12DropBox()
				sites := strings.HasSuffix(o.op, "sites")
				for m := 0; m < 32; m++ {
					ends, rev, ic, ig, in := m&1 != 0, m&2 != 0, m&4 != 0, m&8 != 0, m&16 != 0
					if !sites && (ends || rev) {
						continue
					}
					switch o.op {
					case "gapsites":
						if rev || ic || in { // flags the command does not pass on for GAP (ig: documented refusal)
							continue
						}
					case "majsites":
						if rev || ic {
							continue
						}
					case "gapseqs":
						if ic || ig {
							continue
						}
					}
					for _, cut := range cuts {
						for _, seqs := range alns {
							cs := c12Case{Op: o.op, Alpha: alpha, Seqs: seqs, Chars: o.chars, Cutoff: cut, Ends: ends, IgnoreCase: ic, IgnoreGaps: ig, IgnoreNs: in, Reverse: rev, CLI: true}
							c12CheckCLI(c, &cs)
							if c.Expired() {
								return
							}
						}
					}
				}
			}})
		}
	}
	return ts
}
