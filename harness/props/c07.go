package props

import (
	"fmt"
	"math"
	"strings"

	"verif/harness/mc"

	"github.com/evolbioinfo/goalign/align"
	"github.com/evolbioinfo/goalign/distance/dna"
)

// C07 — nucleotide distances equal the published estimators and form sane matrices.
//
// Every case is a real alignment handed to the real dna.DistMatrix; the expected matrix comes from
// the harness's own classification of the columns and its own evaluation of the textbook formulas
// (c07_oracle.go).  The enumeration (c07Tasks) is bounded-exhaustive on a lattice of column types.

type c07Case struct {
	Seqs   []string `json:"seqs"`
	Model  string   `json:"model"`
	Alpha  float64  `json:"alpha,omitempty"` // 0 = no gamma correction
	RmGaps bool     `json:"rmgaps,omitempty"`
	GapMut int      `json:"gapmut,omitempty"` // 0 none, 1 internal gaps only, 2 all gaps (rawdist, pdist)
	RmAmb  bool     `json:"rmamb,omitempty"`  // pdist only
	W      int      `json:"w,omitempty"`      // weight scheme, see c07Weights
	Cpus   int      `json:"cpus"`
	Ranges []int    `json:"ranges,omitempty"` // r1min r1max r2min r2max
	// Prior: rows of an alignment whose matrix is computed first with the SAME model object (the way
	// compute distance treats a multi-alignment input and build distboot its replicates): the matrix of
	// Seqs must not depend on it
	Prior []string `json:"prior,omitempty"`
}

func (cs c07Case) op() string {
	o := cs.Model
	if cs.Alpha > 0 {
		o += "+gamma"
	}
	if len(cs.Prior) > 0 {
		o += "+model-reused" // the payload carries the earlier call: replayable on its own
	}
	return o
}

// c07Weights: 0 = nil (no weights), 1 = all 1, 2 = 1,2,3,…, 3 = 0.5,2,0.5,2,…  (all binary-exact)
func c07Weights(scheme, L int) []float64 {
	if scheme == 0 {
		return nil
	}
	w := make([]float64, L)
	for i := range w {
		switch scheme {
		case 1:
			w[i] = 1
		case 2:
			w[i] = float64(i + 1)
		default:
			if i%2 == 0 {
				w[i] = 0.5
			} else {
				w[i] = 2
			}
		}
	}
	return w
}

func c07NewModel(cs c07Case) (dna.DistModel, error) {
	m, err := dna.Model(cs.Model, cs.RmGaps)
	if err != nil {
		return nil, err
	}
	switch t := m.(type) {
	case *dna.PDistModel:
		t.SetRemoveAmbiguous(cs.RmAmb)
		err = t.SetCountGapMutations(cs.GapMut)
	case *dna.RawDistModel:
		err = t.SetCountGapMutations(cs.GapMut)
	}
	return m, err
}

func c07IsInf(x float64) bool { return math.IsInf(x, 0) }

func c07Fmt(x float64) string {
	switch {
	case math.IsNaN(x):
		return "NaN"
	case math.IsInf(x, 1):
		return "+Inf"
	case math.IsInf(x, -1):
		return "-Inf"
	}
	return fmt.Sprintf("%.12g", x)
}

func c07Close(got, want float64) bool {
	if want == 0 {
		return math.Abs(got) <= c07Zero
	}
	return math.Abs(got-want) <= 1e-9*math.Abs(want)
}

// c07Check runs one case through the real code and compares with the oracle.  At most one
// violation (the most fundamental one) is reported per matrix.
func c07Check(c *mc.Ctx, cs c07Case) {
	c.Eval()
	op := cs.op()
	violAt := func(where, clause, desc string) {
		c.Violation("C07/"+where+"/"+clause, fmt.Sprintf("%s: case %s", desc, jsonStr(cs)), cs)
	}
	viol := func(clause, desc string) { violAt(op, clause, desc) }
	n := len(cs.Seqs)
	L := len(cs.Seqs[0])
	if why := c07OutOfScope(cs); why != "" {
		c.Skip(why)
		return
	}
	for _, o := range []struct {
		on  bool
		key string
	}{{cs.RmGaps, "cases_rmgaps"}, {cs.GapMut == 1, "cases_gapmut1"}, {cs.GapMut == 2, "cases_gapmut2"}, {cs.RmAmb, "cases_rmambiguous"},
		{cs.W != 0, "cases_weighted"}, {cs.Cpus > 1, "cases_cpus2"}, {cs.Ranges != nil, "cases_ranges"}, {n > 2, "cases_3rows"}} {
		if o.on {
			c.Count(o.key, 1)
		}
	}
	al, err := mkAlign(align.NUCLEOTIDS, namedRows(cs.Seqs...))
	if err != nil {
		c.Fatal("cannot build alignment %v: %v", cs.Seqs, err)
		return
	}
	m, err := c07NewModel(cs)
	if err != nil {
		c.Fatal("cannot build model %v: %v", cs, err)
		return
	}
	weights := c07Weights(cs.W, L)
	rg := []int{-1, -1, -1, -1}
	if cs.Ranges != nil {
		rg = cs.Ranges
	}
	if len(cs.Prior) > 0 {
		pal, perr := mkAlign(align.NUCLEOTIDS, namedRows(cs.Prior...))
		if perr != nil {
			c.Fatal("cannot build prior alignment %v: %v", cs.Prior, perr)
			return
		}
		if pn, msg := mc.Guard(func() { dna.DistMatrix(pal, nil, m, -1, -1, -1, -1, cs.Alpha > 0, cs.Alpha, 1) }); pn {
			viol("panic/"+mc.PanicSite(msg), "on the earlier alignment: "+msg)
			return
		}
	}
	var mat [][]float64
	pn, msg := mc.Guard(func() {
		mat, err = dna.DistMatrix(al, weights, m, rg[0], rg[1], rg[2], rg[3], cs.Alpha > 0, cs.Alpha, cs.Cpus)
	})
	if pn {
		viol("panic/"+mc.PanicSite(msg), msg)
		return
	}
	clampedRange := cs.Ranges != nil && (rg[1] >= n || rg[3] >= n)
	if err != nil {
		if clampedRange {
			c.Skip("a range maximum beyond the last sequence: error or clamping, the documentation does not say")
			return
		}
		viol("unexpected-error", err.Error())
		return
	}
	// ---- shape, diagonal, symmetry
	if len(mat) != n {
		violAt("matrix", "shape", fmt.Sprintf("%d rows for %d sequences", len(mat), n))
		return
	}
	for i := range mat {
		if len(mat[i]) != n {
			violAt("matrix", "shape", fmt.Sprintf("row %d has %d entries for %d sequences", i, len(mat[i]), n))
			return
		}
	}
	for i := 0; i < n; i++ {
		if mat[i][i] != 0 {
			violAt("matrix", "diagonal-not-zero", fmt.Sprintf("entry (%d,%d) = %s", i, i, c07Fmt(mat[i][i])))
			return
		}
		for j := i + 1; j < n; j++ {
			a, b := mat[i][j], mat[j][i]
			if !(a == b || (math.IsNaN(a) && math.IsNaN(b))) {
				violAt("matrix", "asymmetric", fmt.Sprintf("entry (%d,%d) = %s but (%d,%d) = %s", i, j, c07Fmt(a), j, i, c07Fmt(b)))
				return
			}
		}
	}
	// ---- expected matrix
	exp := c07Expect(cs, c07HypStatement)
	// maximal defined entry: what a "matrix-wide maximal substitute" has to be derived from
	maxDef := 0.0
	// looseMax: some entry the oracle does not pin down (a boundary pair rendered finite by rounding, a
	// pair skipped as undetermined, a defined value above 9e4) may legitimately enter the maximum
	looseMax := false
	for i := 0; i < n; i++ {
		for j := i + 1; j < n; j++ {
			w := exp.want[i][j]
			if !exp.computed[i][j] || w.nodiff {
				continue
			}
			switch {
			case w.class == c07Defined && w.val < 9e4:
				if w.val > maxDef {
					maxDef = w.val
				}
			case w.class == c07Defined || w.class == c07Skipped:
				looseMax = true
			case w.class == c07Boundary && !math.IsNaN(mat[i][j]) && !c07IsInf(mat[i][j]) && mat[i][j] >= w.lower*(1-1e-6):
				looseMax = true
			}
		}
	}
	type finding struct {
		prio int
		sig  string
		desc func() string
	}
	var worst *finding
	report := func(prio int, sig string, desc func() string) {
		if worst == nil || prio < worst.prio {
			worst = &finding{prio, sig, desc}
		}
	}
	corrected := cs.Model != "rawdist" && cs.Model != "pdist"
	compared := false
	for i := 0; i < n; i++ {
		for j := i + 1; j < n; j++ {
			i, j := i, j
			got := mat[i][j]
			pair := func() string { return fmt.Sprintf("pair (%d,%d) %s/%s", i, j, cs.Seqs[i], cs.Seqs[j]) }
			if !exp.computed[i][j] {
				if got != 0 {
					report(1, "C07/matrix/range-uncompared-pair-not-zero", func() string {
						return fmt.Sprintf("%s is outside the ranges but reported %s", pair(), c07Fmt(got))
					})
				}
				continue
			}
			w := exp.want[i][j]
			finite := !math.IsNaN(got) && !c07IsInf(got)
			// two rows with comparable sites and no counted difference are at distance 0
			if w.nodiff {
				c.Outcome(op + ":nodiff")
				if !(math.Abs(got) <= c07Zero) {
					report(5, "C07/"+op+"/no-difference-not-zero"+c07DiagnoseTag(cs, i, j, got), func() string {
						return fmt.Sprintf("%s has comparable sites and no counted difference but is reported %s", pair(), c07Fmt(got))
					})
				}
				compared = true
				continue
			}
			switch w.class {
			case c07Skipped:
				c.Skip(w.note)
				c.Outcome(op + ":skipped")
			case c07Defined:
				compared = true
				if w.val >= 9e4 {
					c.Skip("defined estimator above 9e4: whether DistMatrix may replace huge values is not documented")
					continue
				}
				c.Outcome(op + ":defined")
				c.Count("pairs_defined_"+op, 1)
				if c07Close(got, w.val) {
					continue
				}
				how := "value"
				if !finite {
					how = "defined-pair-reported-" + c07Fmt(got)
				}
				report(2, "C07/"+op+"/"+how+c07DiagnoseTag(cs, i, j, got), func() string {
					return fmt.Sprintf("%s: reported %s, the estimator gives %s (%s)", pair(), c07Fmt(got), c07Fmt(w.val), w.why())
				})
			case c07Boundary, c07Undefined:
				compared = true
				c.Outcome(op + ":undefined:" + w.kind + ":" + c07Rendering(got, finite))
				c.Count("pairs_undefined_"+op, 1)
				if math.IsNaN(got) || math.IsInf(got, 1) {
					continue // reported as undefined
				}
				// A finite value (or -Inf).  Undefined pair: only the matrix-wide maximal substitute (twice
				// the largest defined entry) is admitted.  Boundary pair (within 1e-5 of the singularity):
				// rounding may also produce a huge finite value.  In both cases never negative, zero, or
				// (corrected models) below the observed p.
				reject := ""
				isSub := maxDef > 0 && got >= 2*maxDef*(1-1e-9) && (looseMax || got <= 2*maxDef*(1+1e-9))
				switch {
				case got < 0:
					reject = "negative"
				case got <= c07Zero:
					reject = "zero"
				case w.class == c07Boundary && got >= w.lower*(1-1e-6):
					// what rounding can make of the formula at its singularity
				case !isSub:
					reject = "not-the-substitute"
				case corrected && !math.IsNaN(w.p) && got < w.p:
					reject = "below-p"
				}
				if reject == "" {
					continue
				}
				// wording of the signature: did the estimator itself return the value, or the matrix assembly?
				raw := c07Direct(m, i, j, weights)
				own := !math.IsNaN(raw) && !c07IsInf(raw) && raw >= 0 && (raw == got || (raw <= c07Zero && got <= c07Zero))
				sig, prio := "", 3
				switch {
				case reject == "negative":
					sig = "C07/" + op + "/undefined-pair/" + w.kind + "/reported-negative"
				case own && reject == "zero":
					sig = "C07/" + op + "/undefined-pair/" + w.kind + "/estimator-returns-zero"
				case own && reject == "not-the-substitute":
					sig = "C07/" + op + "/undefined-pair/" + w.kind + "/estimator-returns-finite"
				case own:
					sig = "C07/" + op + "/undefined-pair/" + w.kind + "/estimator-returns-finite-below-p"
				case reject == "zero":
					sig, prio = "C07/matrix/substitute-is-zero", 4
				case reject == "not-the-substitute":
					sig, prio = "C07/matrix/substitute-not-twice-the-maximum", 4
				default:
					sig, prio = "C07/matrix/substitute-below-observed-p", 6
				}
				report(prio, sig+c07DiagnoseTag(cs, i, j, got), func() string {
					return fmt.Sprintf("%s: the estimator is undefined (%s; observed p=%s) but the matrix reports %s (Distance() itself returns %s; largest defined entry of the matrix %s)", pair(), w.why(), c07Fmt(w.p), c07Fmt(got), c07Fmt(raw), c07Fmt(maxDef))
				})
			}
		}
	}
	if worst != nil {
		c.Violation(worst.sig, fmt.Sprintf("%s: case %s", worst.desc(), jsonStr(cs)), cs)
		return
	}
	if compared {
		c.Nontrivial(fmt.Sprintf("%v|%s|%v|%v|%d|%v|%d|%v", cs.Seqs, cs.Model, cs.Alpha, cs.RmGaps, cs.GapMut, cs.RmAmb, cs.W, cs.Ranges))
		if n > 2 || strings.ContainsAny(cs.Seqs[0], "-N") {
			c.Sample(map[string]any{"case": cs, "matrix": fmtMatrix(mat)})
		}
	}
}

// c07Zero: rounding noise admitted around an exact zero (e.g. the gamma F84 of two identical rows is
// 2*alpha*(A + (B+C-A) - B - C) = 5.6e-17).
const c07Zero = 1e-12

func c07Rendering(got float64, finite bool) string {
	switch {
	case math.IsNaN(got):
		return "NaN"
	case !finite:
		return "Inf"
	case got <= c07Zero:
		return "nonpositive"
	}
	return "finite"
}

// c07Direct asks the (initialised) model for the pair's distance without the matrix assembly; used
// only to word the signature of an already established violation.
func c07Direct(m dna.DistModel, i, j int, weights []float64) (d float64) {
	d = math.NaN()
	mc.Guard(func() {
		s1, e1 := m.Sequence(i)
		s2, e2 := m.Sequence(j)
		if e1 != nil || e2 != nil {
			return
		}
		if x, e := m.Distance(s1, s2, weights); e == nil {
			d = x
		}
	})
	return
}

// c07DiagnoseTag names a recognised cause of an established violation: the reported value is what
// the estimator gives under a (wrong) alternative convention.  Purely descriptive.
func c07DiagnoseTag(cs c07Case, i, j int, got float64) string {
	prim := c07Expect(cs, c07HypStatement).want[i][j]
	primUndef := !prim.nodiff && (prim.class == c07Undefined || prim.class == c07Boundary)
	for _, h := range []int{c07HypFreqGapCells, c07HypInternalIgnoresRmGaps} {
		if h == c07HypFreqGapCells && (cs.Model == "rawdist" || cs.Model == "pdist" || cs.Model == "jc" || cs.Model == "k2p") {
			continue
		}
		if h == c07HypInternalIgnoresRmGaps && !(cs.GapMut == 1 && cs.RmGaps) {
			continue
		}
		alt := c07Expect(cs, h).want[i][j]
		match := false
		switch {
		case alt.nodiff:
			match = math.Abs(got) <= c07Zero
		case alt.class == c07Defined:
			match = c07Close(got, alt.val)
		case (alt.class == c07Undefined || alt.class == c07Boundary) && !primUndef:
			// undefined under the alternative convention only: any rendering of "undefined" the code is known to use
			match = math.IsNaN(got) || c07IsInf(got) || math.Abs(got) <= c07Zero
		}
		if match {
			return "/" + c07HypName[h]
		}
	}
	return ""
}
