package props

import (
	"encoding/json"
	"fmt"
	"math"
	"runtime"
	"sort"
	"strconv"
	"strings"

	"verif/harness/mc"

	"github.com/evolbioinfo/goalign/align"
	"github.com/evolbioinfo/goalign/io/partition"
)

// C04 — site extraction and coordinates address exactly the requested columns.
//
// Every operation is run on a fresh alignment built from the case and compared
// with column picking on the model rows (names + strings).  Library operations
// are in this file, the same operations driven through the command line
// (cobra commands executed in process, files in a private directory) in
// c04_cli.go.

// c04Case is one input of one operation.
//
//	SubAlign, InverseCoordinates, RefCoordinates: window (X = start, Y = length)
//	Resplit: SubAlign(0,X) ++ SubAlign(X,L-X)
//	SelectSites, InversePositions, RefSites: Sites
//	TrimSequences: X = size, Flag = fromStart
//	Split: Map (site -> block), Build = how the PartitionSet is made; PartLen = its length when not L
//	AddRange: X = start, Y = end, Z = modulo on a PartitionSet of the alignment length; Build = api | text
//	Concat, Append: first alignment Names/Seqs, second Names2/Seqs2
//	Transpose, Diff: the alignment only
//	cli-*: see c04_cli.go
type c04Case struct {
	Op      string   `json:"op"`
	Names   []string `json:"names,omitempty"` // default a, b, c …
	Seqs    []string `json:"seqs"`
	X       int      `json:"x,omitempty"`
	Y       int      `json:"y,omitempty"`
	Z       int      `json:"z,omitempty"`
	Sites   []int    `json:"sites,omitempty"`
	Ref     string   `json:"ref,omitempty"`
	Flag    bool     `json:"flag,omitempty"`
	Map     []int    `json:"map,omitempty"`
	Build   string   `json:"build,omitempty"`
	PartLen int      `json:"partlen,omitempty"`
	Names2  []string `json:"names2,omitempty"`
	Seqs2   []string `json:"seqs2,omitempty"`
	// Warm: the object the operation is called on was first an alignment with these rows (same names and
	// shape), answered every coordinate query in that state, and was then edited in place, residue by
	// residue, into Seqs: the answer must be the one a fresh alignment gives
	Warm []string `json:"warm,omitempty"`
}

const (
	c04Unknown = "zz" // a name no row has

	c04SkipRefSitesBeyond = "RefSites with a site >= the reference's ungapped length but inside the alignment: the statement speaks of positions outside the alignment only (DESIGN §5)"
	c04SkipRefLenZero     = "RefCoordinates with length 0: the smallest window holding no reference residue has no determined start"
	c04SkipReversedRange  = "partition range with start > end: not determined"
	c04SkipModulo         = "partition range with modulo <= 0 accepted: not a position, the statement does not determine the answer"
	c04SkipEmptyRejected  = "an empty window inside the alignment was rejected: neither result is excluded by the statement"
	c04SkipNameClash      = "Append with a name present in both alignments: the renaming policy belongs to C01"
	c04SkipEmptyOperand   = "Concat/Append with an alignment without rows answered with an error: not excluded by the statement"
)

// ---- model

func (cs c04Case) rows1() rows { return c04Rows(cs.Names, cs.Seqs) }
func (cs c04Case) rows2() rows { return c04Rows(cs.Names2, cs.Seqs2) }

func c04Rows(names, seqs []string) rows {
	if names == nil {
		return namedRows(seqs...)
	}
	r := make(rows, len(seqs))
	for i := range seqs {
		r[i] = row{names[i], seqs[i]}
	}
	return r
}

func c04Len(r rows) int {
	if len(r) == 0 {
		return 0
	}
	return len(r[0].Seq)
}

// c04Pick returns the rows restricted to the given columns, in the given order.
func c04Pick(in rows, sites []int) rows {
	out := make(rows, len(in))
	b := make([]byte, len(sites))
	for i, r := range in {
		for j, s := range sites {
			b[j] = r.Seq[s]
		}
		out[i] = row{r.Name, string(b)}
	}
	return out
}

func c04Range(start, length int) []int {
	out := make([]int, 0, max(length, 0))
	for i := 0; i < length; i++ {
		out = append(out, start+i)
	}
	return out
}

// c04Complement returns the positions of 0..L-1 not in sites, ascending.
func c04Complement(L int, sites []int) []int {
	in := make([]bool, L)
	for _, s := range sites {
		in[s] = true
	}
	out := []int{}
	for i := 0; i < L; i++ {
		if !in[i] {
			out = append(out, i)
		}
	}
	return out
}

// c04WindowClass names why the window [start, start+length) is not inside
// 0..L ("" when it is; an empty window at 0..L is inside).
func c04WindowClass(start, length, L int) string {
	switch {
	case start < 0:
		return "start<0"
	case length < 0:
		return "len<0"
	case start > L:
		return "start>L"
	case length > L-start: // (not start+length > L: the sum overflows for lengths near the largest integer)
		return "end>L"
	}
	return ""
}

// c04SitesClass names the first position of the list that is outside 0..L-1.
func c04SitesClass(sites []int, L int) string {
	for _, s := range sites {
		switch {
		case s < 0:
			return "site<0"
		case s == L:
			return "site=L"
		case s > L:
			return "site>L"
		}
	}
	return ""
}

func c04Diff(got, want rows) string {
	if len(got) != len(want) {
		return "row-count"
	}
	for i := range want {
		if got[i].Name != want[i].Name {
			return "names"
		}
	}
	for i := range want {
		if len(got[i].Seq) != len(want[i].Seq) {
			return "column-count"
		}
	}
	for i := range want {
		if got[i].Seq != want[i].Seq {
			return "columns"
		}
	}
	return ""
}

// ---- checker

type c04K struct {
	c  *mc.Ctx
	cs c04Case
	// warmed: the primary alignment of a warmed case has been built
	warmed bool
}

func (k *c04K) viol(op, clause, desc string) {
	k.c.Violation("C04/"+op+"/"+clause, fmt.Sprintf("%s: %s: case %s", op, desc, jsonStr(k.cs)), k.cs)
}

// call runs one call into goalign; class tells in which class of input the
// call was made ("valid" or the out-of-range class), so that a crash on a
// boundary value is not lumped with a crash on a valid input.
func (k *c04K) call(op, class string, f func()) bool {
	k.c.Count("goalign_calls", 1)
	if pn, msg := mc.Guard(f); pn {
		if class == "" {
			class = "valid"
		}
		k.viol(op, "panic/"+mc.PanicSite(msg)+"/"+class, msg)
		return false
	}
	return true
}

// c04WarmKind, when set by a task, makes every case of the task a warmed case.
var c04WarmKind string

func c04WarmOf(kind string, seqs []string) []string {
	out := make([]string, len(seqs))
	for i, s := range seqs {
		b := []byte(s)
		switch kind {
		case "rot":
			if len(b) > 1 {
				b = append(b[1:len(b):len(b)], b[0])
			}
		case "rev":
			for x, y := 0, len(b)-1; x < y; x, y = x+1, y-1 {
				b[x], b[y] = b[y], b[x]
			}
		}
		out[i] = string(b)
	}
	return out
}

func (k *c04K) build(r rows) align.Alignment {
	if len(k.cs.Warm) == len(r) && len(r) > 0 && !k.warmed {
		k.warmed = true
		w := r.clone()
		for i := range w {
			if len(k.cs.Warm[i]) != len(r[i].Seq) {
				k.c.Fatal("warm rows of another shape: %s", jsonStr(k.cs))
				return nil
			}
			w[i].Seq = k.cs.Warm[i]
		}
		al, err := mkAlign(align.NUCLEOTIDS, w)
		if err != nil {
			k.c.Fatal("cannot build input %s: %v", jsonStr(k.cs), err)
			return nil
		}
		L := len(r[0].Seq)
		ok := k.call("warm-up", "", func() {
			for _, x := range w {
				for s := 0; s <= L; s++ {
					for l := 0; s+l <= L; l++ {
						al.RefCoordinates(x.Name, s, l)
					}
					al.RefSites(x.Name, []int{s})
				}
			}
			for s := 0; s < L; s++ {
				al.InverseCoordinates(s, 1)
				al.InversePositions([]int{s})
				al.SubAlign(s, 1)
				al.SelectSites([]int{s})
			}
			al.Length()
			al.NbSequences()
			for i, x := range r {
				for j := 0; j < L; j++ {
					if e := al.SetSequenceChar(i, j, x.Seq[j]); e != nil {
						panic("SetSequenceChar: " + e.Error())
					}
				}
			}
		})
		if !ok {
			return nil
		}
		return al
	}
	al, err := mkAlign(align.NUCLEOTIDS, r)
	if err != nil {
		k.c.Fatal("cannot build input %s: %v", jsonStr(k.cs), err)
		return nil
	}
	return al
}

// same compares an alignment returned by goalign with the expected rows.
func (k *c04K) same(op string, al align.Alignment, want rows) bool {
	if al == nil {
		k.viol(op, "nil-result", "nil alignment without error")
		return false
	}
	got := readRows(al)
	if cl := c04Diff(got, want); cl != "" {
		k.viol(op, cl, fmt.Sprintf("got %v want %v", got, want))
		return false
	}
	if len(want) > 0 && al.Length() != len(want[0].Seq) {
		k.viol(op, "length", fmt.Sprintf("Length()=%d, rows have %d columns", al.Length(), len(want[0].Seq)))
		return false
	}
	return true
}

// rejected handles a call made with an out-of-range argument: it must have
// returned an error.
func (k *c04K) rejected(op, class string, err error) {
	if err == nil {
		k.viol(op, "out-of-range-accepted/"+class, "no error although the argument is outside the alignment ("+class+")")
		return
	}
	k.c.Outcome(op + ":rejected:" + class)
}

// ---- SubAlign / Resplit / SelectSites / Inverse* / TrimSequences

func (k *c04K) subAlign() {
	in := k.cs.rows1()
	L := c04Len(in)
	al := k.build(in)
	if al == nil {
		return
	}
	class := c04WindowClass(k.cs.X, k.cs.Y, L)
	var sub align.Alignment
	var err error
	if !k.call("SubAlign", class, func() { sub, err = al.SubAlign(k.cs.X, k.cs.Y) }) {
		return
	}
	if class != "" {
		k.rejected("SubAlign", class, err)
		return
	}
	if err != nil {
		if k.cs.Y == 0 {
			k.c.Skip(c04SkipEmptyRejected)
			return
		}
		k.viol("SubAlign", "unexpected-error", err.Error())
		return
	}
	if k.same("SubAlign", sub, c04Pick(in, c04Range(k.cs.X, k.cs.Y))) {
		k.c.Outcome("SubAlign:ok")
		if k.cs.Y > 0 && k.cs.Y < L {
			k.c.Nontrivial("sub|" + in.String() + "|" + fmt.Sprint(k.cs.X, k.cs.Y))
		}
	}
}

// resplit: SubAlign(0,k) ++ SubAlign(k,L-k) = the alignment.
func (k *c04K) resplit() {
	in := k.cs.rows1()
	L := c04Len(in)
	al := k.build(in)
	if al == nil {
		return
	}
	var pre, suf align.Alignment
	var e1, e2, e3 error
	if !k.call("Resplit", "", func() {
		if pre, e1 = al.SubAlign(0, k.cs.X); e1 != nil {
			return
		}
		if suf, e2 = al.SubAlign(k.cs.X, L-k.cs.X); e2 != nil {
			return
		}
		e3 = pre.Concat(suf)
	}) {
		return
	}
	switch {
	case e1 != nil && k.cs.X == 0, e2 != nil && k.cs.X == L:
		k.c.Skip(c04SkipEmptyRejected)
	case e1 != nil || e2 != nil:
		k.viol("Resplit", "unexpected-error", fmt.Sprint("SubAlign: ", e1, e2))
	case e3 != nil:
		k.viol("Resplit", "concat-error", e3.Error())
	default:
		if k.same("Resplit", pre, in) {
			k.c.Outcome("Resplit:ok")
		}
	}
}

func (k *c04K) selectSites() {
	in := k.cs.rows1()
	L := c04Len(in)
	al := k.build(in)
	if al == nil {
		return
	}
	class := c04SitesClass(k.cs.Sites, L)
	var sub align.Alignment
	var err error
	if !k.call("SelectSites", class, func() { sub, err = al.SelectSites(k.cs.Sites) }) {
		return
	}
	if class != "" {
		k.rejected("SelectSites", class, err)
		return
	}
	if err != nil {
		k.viol("SelectSites", "unexpected-error", err.Error())
		return
	}
	if k.same("SelectSites", sub, c04Pick(in, k.cs.Sites)) {
		k.c.Outcome("SelectSites:ok")
		k.c.Nontrivial("sel|" + in.String() + "|" + fmt.Sprint(k.cs.Sites))
	}
}

func (k *c04K) inverseCoordinates() {
	in := k.cs.rows1()
	L := c04Len(in)
	al := k.build(in)
	if al == nil {
		return
	}
	class := c04WindowClass(k.cs.X, k.cs.Y, L)
	var starts, lens []int
	var err error
	if !k.call("InverseCoordinates", class, func() { starts, lens, err = al.InverseCoordinates(k.cs.X, k.cs.Y) }) {
		return
	}
	if class != "" {
		k.rejected("InverseCoordinates", class, err)
		return
	}
	if err != nil {
		if k.cs.Y == 0 {
			k.c.Skip(c04SkipEmptyRejected)
			return
		}
		k.viol("InverseCoordinates", "unexpected-error", err.Error())
		return
	}
	// the returned windows, laid end to end, are exactly the columns outside the window, in order
	want := c04Complement(L, c04Range(k.cs.X, k.cs.Y))
	var got []int
	ok := len(starts) == len(lens)
	for i := 0; ok && i < len(starts); i++ {
		if lens[i] < 0 || starts[i] < 0 || starts[i]+lens[i] > L {
			ok = false
			break
		}
		got = append(got, c04Range(starts[i], lens[i])...)
	}
	if !ok || !intsEq(got, want) {
		k.viol("InverseCoordinates", "windows", fmt.Sprintf("starts %v lengths %v do not cover exactly columns %v", starts, lens, want))
		return
	}
	// the way subseq --reverse uses them
	var acc align.Alignment
	if !k.call("InverseCoordinates+SubAlign", "", func() {
		for i := range starts {
			var s align.Alignment
			if s, err = al.SubAlign(starts[i], lens[i]); err != nil {
				return
			}
			if acc == nil {
				acc = s
			} else if err = acc.Concat(s); err != nil {
				return
			}
		}
	}) {
		return
	}
	if err != nil {
		k.viol("InverseCoordinates+SubAlign", "unexpected-error", err.Error())
		return
	}
	if acc != nil && !k.same("InverseCoordinates+SubAlign", acc, c04Pick(in, want)) {
		return
	}
	// a second extraction from the same alignment (subseq --reverse --step): re-assembling the first
	// one must not have touched the alignment it was extracted from
	if L > 0 {
		var again align.Alignment
		if !k.call("SubAlign-after-reassembly", "", func() { again, err = al.SubAlign(0, L) }) {
			return
		}
		if err != nil {
			k.viol("SubAlign-after-reassembly", "unexpected-error", err.Error())
			return
		}
		if !k.same("SubAlign-after-reassembly", again, in) {
			return
		}
	}
	k.c.Outcome("InverseCoordinates:ok")
}

func (k *c04K) inversePositions() {
	in := k.cs.rows1()
	L := c04Len(in)
	al := k.build(in)
	if al == nil {
		return
	}
	class := c04SitesClass(k.cs.Sites, L)
	var inv []int
	var err error
	if !k.call("InversePositions", class, func() { inv, err = al.InversePositions(k.cs.Sites) }) {
		return
	}
	if class != "" {
		k.rejected("InversePositions", class, err)
		return
	}
	if err != nil {
		k.viol("InversePositions", "unexpected-error", err.Error())
		return
	}
	want := c04Complement(L, k.cs.Sites)
	if !intsEq(inv, want) {
		k.viol("InversePositions", "positions", fmt.Sprintf("got %v want %v", inv, want))
		return
	}
	k.c.Outcome("InversePositions:ok")
}

func (k *c04K) trim() {
	in := k.cs.rows1()
	L := c04Len(in)
	al := k.build(in)
	if al == nil {
		return
	}
	op := "TrimSequences"
	class := ""
	switch {
	case k.cs.X < 0:
		class = "size<0"
	case k.cs.X > L:
		class = "size>L"
	}
	var err error
	if !k.call(op, class, func() { err = al.TrimSequences(k.cs.X, k.cs.Flag) }) {
		return
	}
	if err != nil && L > 0 {
		// a rejected call leaves the alignment what it was: same rows, same Length(), and the whole window can
		// still be extracted from it
		if got := readRows(al); !got.equal(in) || al.Length() != L {
			k.viol(op, "rejected-call-changed-the-alignment", fmt.Sprintf("after the error the alignment holds [%s] and reports Length() %d; it held [%s], length %d", got, al.Length(), in, L))
			return
		}
		var sub align.Alignment
		var e2 error
		if !k.call(op, class, func() { sub, e2 = al.SubAlign(0, L) }) {
			return
		}
		if e2 != nil || sub == nil || !readRows(sub).equal(in) {
			k.viol(op, "rejected-call-changed-the-alignment", fmt.Sprintf("after the error SubAlign(0,%d) of the same alignment gives error %v", L, e2))
			return
		}
	}
	if class != "" {
		k.rejected(op, class, err)
		return
	}
	if err != nil {
		if k.cs.X == L {
			// documented: "If trimsize >= sequence lengths, then throw an error"
			k.c.Outcome(op + ":rejected:size=L")
			return
		}
		k.viol(op, "unexpected-error", err.Error())
		return
	}
	want := c04Range(0, L-k.cs.X)
	if k.cs.Flag {
		want = c04Range(k.cs.X, L-k.cs.X)
	}
	if k.same(op, al, c04Pick(in, want)) {
		k.c.Outcome(fmt.Sprintf("%s:ok:start=%v", op, k.cs.Flag))
		if k.cs.X > 0 {
			k.c.Nontrivial("trim|" + in.String() + "|" + fmt.Sprint(k.cs.X, k.cs.Flag))
		}
	}
	// the same trimming on an alignment whose rows came from another one (Append hands rows over): every row is
	// trimmed, and the alignment the rows came from reads as before
	other := make(rows, len(in))
	for i, r := range in {
		other[i] = row{Name: "o" + r.Name, Seq: r.Seq}
	}
	dst, src := k.build(in), k.build(other)
	if dst == nil || src == nil {
		return
	}
	var e1, e2 error
	if !k.call(op, "", func() { e1 = dst.Append(src); e2 = dst.TrimSequences(k.cs.X, k.cs.Flag) }) {
		return
	}
	if e1 != nil || e2 != nil {
		k.viol(op, "after-append/unexpected-error", fmt.Sprint(e1, e2))
		return
	}
	both := append(in.clone(), other...)
	if !k.same(op+"-after-Append", dst, c04Pick(both, want)) {
		return
	}
	k.same(op+"-after-Append/source-of-the-rows", src, other)
}

// ---- reference coordinates

// c04RefPositions returns the alignment index of every residue of the reference row.
func c04RefPositions(in rows, name string) (pos []int, found bool) {
	for _, r := range in {
		if r.Name == name {
			for i := 0; i < len(r.Seq); i++ {
				if r.Seq[i] != '-' {
					pos = append(pos, i)
				}
			}
			return pos, true
		}
	}
	return nil, false
}

func (k *c04K) refCoordinates() {
	in := k.cs.rows1()
	L := c04Len(in)
	al := k.build(in)
	if al == nil {
		return
	}
	op := "RefCoordinates"
	u, found := c04RefPositions(in, k.cs.Ref)
	s, l := k.cs.X, k.cs.Y
	class := ""
	switch {
	case !found:
		class = "unknown-reference"
	case s < 0:
		class = "start<0"
	case l < 0:
		class = "len<0"
	case s > len(u):
		class = "start>U"
	case s+l > len(u):
		class = "end>U"
	}
	var gs, gl int
	var err error
	if !k.call(op, class, func() { gs, gl, err = al.RefCoordinates(k.cs.Ref, s, l) }) {
		return
	}
	if class != "" {
		if err == nil {
			k.viol(op, "out-of-range-accepted/"+class, fmt.Sprintf("no error, window (%d,%d), although the request is outside the reference (%s)", gs, gl, class))
		} else {
			k.c.Outcome(op + ":rejected:" + class)
		}
		return
	}
	if l == 0 {
		k.c.Skip(c04SkipRefLenZero)
		return
	}
	if err != nil {
		k.viol(op, "unexpected-error", err.Error())
		return
	}
	ws, wl := u[s], u[s+l-1]-u[s]+1
	if gs != ws || gl != wl {
		clause := "wrong-residues"
		if gs >= 0 && gl >= 0 && gs+gl <= L {
			var inside []int
			for _, p := range u {
				if p >= gs && p < gs+gl {
					inside = append(inside, p)
				}
			}
			if intsEq(inside, u[s:s+l]) {
				clause = "not-minimal"
			}
		} else {
			clause = "outside-alignment"
		}
		k.viol(op, "window/"+clause, fmt.Sprintf("got (%d,%d) want (%d,%d)", gs, gl, ws, wl))
		return
	}
	// what subseq --ref-seq does with it
	var sub align.Alignment
	if !k.call(op+"+SubAlign", "", func() { sub, err = al.SubAlign(gs, gl) }) {
		return
	}
	if err != nil {
		k.viol(op+"+SubAlign", "unexpected-error", err.Error())
		return
	}
	if k.same(op+"+SubAlign", sub, c04Pick(in, c04Range(ws, wl))) {
		k.c.Outcome(op + ":ok")
		if wl != l || ws != s {
			k.c.Nontrivial("refc|" + in.String() + "|" + fmt.Sprint(k.cs.Ref, s, l))
		}
	}
}

func (k *c04K) refSites() {
	in := k.cs.rows1()
	L := c04Len(in)
	al := k.build(in)
	if al == nil {
		return
	}
	op := "RefSites"
	u, found := c04RefPositions(in, k.cs.Ref)
	class := ""
	if !found {
		class = "unknown-reference"
	} else {
		class = c04SitesClass(k.cs.Sites, L)
	}
	var got []int
	var err error
	if !k.call(op, class, func() { got, err = al.RefSites(k.cs.Ref, k.cs.Sites) }) {
		return
	}
	if class != "" {
		k.rejected(op, class, err)
		return
	}
	for _, s := range k.cs.Sites {
		if s >= len(u) {
			k.c.Skip(c04SkipRefSitesBeyond)
			return
		}
	}
	if err != nil {
		k.viol(op, "unexpected-error", err.Error())
		return
	}
	addressed := make([]int, len(k.cs.Sites))
	for i, s := range k.cs.Sites {
		addressed[i] = u[s]
	}
	set := c04SortedSet(addressed)
	switch {
	case intsEq(got, addressed):
		k.c.Outcome(op + ":ok:addressed-order")
	case intsEq(got, set):
		// documented for the command: "a set of positions"
		k.c.Outcome(op + ":ok:ascending-set")
	default:
		k.viol(op, "positions", fmt.Sprintf("got %v want %v (or as a set %v)", got, addressed, set))
		return
	}
	if !intsEq(addressed, k.cs.Sites) {
		k.c.Nontrivial("refs|" + in.String() + "|" + fmt.Sprint(k.cs.Ref, k.cs.Sites))
	}
}

func c04SortedSet(s []int) []int {
	o := append([]int{}, s...)
	sort.Ints(o)
	out := o[:0]
	for i, v := range o {
		if i == 0 || v != o[i-1] {
			out = append(out, v)
		}
	}
	return out
}

// ---- partitions

type c04Prog struct{ a, last, k int } // sites a, a+k, …, last

// c04Progs cuts an ascending site list into runs (modulo=false) or greedily
// into arithmetic progressions (modulo=true).
func c04Progs(S []int, modulo bool) []c04Prog {
	used := make([]bool, len(S))
	idx := map[int]int{}
	for i, s := range S {
		idx[s] = i
	}
	var out []c04Prog
	for i, a := range S {
		if used[i] {
			continue
		}
		used[i] = true
		p := c04Prog{a, a, 1}
		if modulo {
			for j := i + 1; j < len(S); j++ {
				if !used[j] {
					p.k = S[j] - a
					break
				}
			}
		}
		for x := a + p.k; ; x += p.k {
			j, ok := idx[x]
			if !ok || used[j] {
				break
			}
			used[j] = true
			p.last = x
		}
		if p.last == p.a {
			p.k = 1
		}
		out = append(out, p)
	}
	return out
}

func c04Blocks(m []int) (blocks [][]int) {
	nb := 0
	for _, b := range m {
		nb = max(nb, b+1)
	}
	blocks = make([][]int, nb)
	for site, b := range m {
		blocks[b] = append(blocks[b], site)
	}
	return
}

// c04PartText writes the partition map as a RAxML-like partition file (1-based
// inclusive ranges, "/k" = every k-th site), one line per block.
func c04PartText(m []int, L int, modulo, loose bool) string {
	var b strings.Builder
	for bi, S := range c04Blocks(m) {
		fmt.Fprintf(&b, "GTR,p%d=", bi)
		for i, p := range c04Progs(S, modulo) {
			if i > 0 {
				b.WriteByte(',')
			}
			end := p.last
			if loose && p.k > 1 {
				end = min(p.last+p.k-1, L-1)
			}
			switch {
			case p.a == end:
				fmt.Fprintf(&b, "%d", p.a+1)
			case p.k == 1:
				fmt.Fprintf(&b, "%d-%d", p.a+1, end+1)
			default:
				fmt.Fprintf(&b, "%d-%d/%d", p.a+1, end+1, p.k)
			}
		}
		b.WriteByte('\n')
	}
	return b.String()
}

// c04BuildPartition makes the PartitionSet of the map the way Build says.
func (k *c04K) c04BuildPartition(m []int, L int, build string) (ps *align.PartitionSet, ok bool) {
	op := "PartitionSet/" + build
	var err error
	api := func(modulo, loose bool) {
		ps = align.NewPartitionSet(L)
		for bi, S := range c04Blocks(m) {
			for _, p := range c04Progs(S, modulo) {
				end := p.last
				if loose && p.k > 1 {
					end = min(p.last+p.k-1, L-1)
				}
				if err = ps.AddRange("p"+strconv.Itoa(bi), "GTR", p.a, end, p.k); err != nil {
					return
				}
			}
		}
	}
	parse := func(text string) {
		ps, err = partition.NewParser(strings.NewReader(text)).Parse(L)
	}
	if !k.call(op, "", func() {
		switch build {
		case "ranges":
			api(false, false)
		case "modulo":
			api(true, false)
		case "modloose":
			api(true, true)
		case "string":
			api(false, false)
			if err == nil {
				parse(ps.String())
			}
		case "sitewise":
			// one AddRange call per site, in site order: the names of the partitions come back after others were
			// declared (maps whose blocks do not first appear in code order are built by ranges instead, the
			// partition numbers being those of first declaration)
			canonical, next := true, 0
			for _, b := range m {
				if b > next {
					canonical = false
				}
				if b == next {
					next++
				}
			}
			if !canonical {
				api(false, false)
				break
			}
			ps = align.NewPartitionSet(L)
			for site, b := range m {
				if err = ps.AddRange("p"+strconv.Itoa(b), "GTR", site, site, 1); err != nil {
					return
				}
			}
		case "text":
			parse(c04PartText(m, L, true, true))
		default:
			err = fmt.Errorf("unknown build %q", build)
		}
	}) {
		return nil, false
	}
	if err != nil {
		k.viol(op, "unexpected-error", err.Error())
		return nil, false
	}
	nb := len(c04Blocks(m))
	if ps.NPartitions() != nb || ps.AliLength() != L {
		k.viol(op, "shape", fmt.Sprintf("%d partitions over %d sites, want %d over %d", ps.NPartitions(), ps.AliLength(), nb, L))
		return nil, false
	}
	for site, b := range m {
		if ps.Partition(site) != b {
			k.viol(op, "map", fmt.Sprintf("site %d is in partition %d, want %d", site, ps.Partition(site), b))
			return nil, false
		}
	}
	for b := 0; b < nb; b++ {
		if ps.PartitionName(b) != "p"+strconv.Itoa(b) {
			k.viol(op, "names", fmt.Sprintf("partition %d is named %q", b, ps.PartitionName(b)))
			return nil, false
		}
	}
	return ps, true
}

func (k *c04K) split() {
	in := k.cs.rows1()
	L := c04Len(in)
	al := k.build(in)
	if al == nil {
		return
	}
	pl := L
	if k.cs.PartLen != 0 {
		pl = k.cs.PartLen
	}
	if len(k.cs.Map) != pl {
		k.c.Fatal("bad case %s", jsonStr(k.cs))
		return
	}
	ps, ok := k.c04BuildPartition(k.cs.Map, pl, k.cs.Build)
	if !ok {
		return
	}
	blocks := c04Blocks(k.cs.Map)
	class := ""
	switch {
	case pl > L:
		class = "partition-site>=L"
	case len(blocks) < 2:
		class = "single-partition"
	}
	var als []align.Alignment
	var err error
	if !k.call("Split", class, func() { als, err = al.Split(ps) }) {
		return
	}
	switch class {
	case "partition-site>=L":
		k.rejected("Split", class, err)
		return
	case "single-partition":
		// documented: "If the partitionset has one partition or less, then returns an error"
		if err == nil {
			k.viol("Split", "single-partition-accepted", "no error for a partition set with one partition")
		} else {
			k.c.Outcome("Split:rejected:single-partition")
		}
		return
	}
	if err != nil {
		k.viol("Split", "unexpected-error", err.Error())
		return
	}
	if len(als) != len(blocks) {
		k.viol("Split", "block-count", fmt.Sprintf("%d alignments for %d partitions", len(als), len(blocks)))
		return
	}
	for b, S := range blocks {
		if !k.same("Split", als[b], c04Pick(in, S)) {
			return
		}
	}
	// re-interleave the blocks by the map
	back := make([][]byte, len(in))
	for i := range back {
		back[i] = make([]byte, L)
	}
	next := make([]int, len(blocks))
	for site, b := range k.cs.Map {
		for i := range in {
			s, _ := als[b].GetSequenceById(i)
			back[i][site] = s[next[b]]
		}
		next[b]++
	}
	for i := range in {
		if string(back[i]) != in[i].Seq {
			k.viol("Split", "reinterleave", fmt.Sprintf("row %d re-interleaved is %q", i, back[i]))
			return
		}
	}
	k.c.Outcome("Split:ok:" + k.cs.Build)
	k.c.Nontrivial("split|" + in.String() + "|" + fmt.Sprint(k.cs.Map))
}

// addRange: one range on a fresh PartitionSet of the alignment length.
func (k *c04K) addRange() {
	L := c04Len(k.cs.rows1())
	start, end, mod := k.cs.X, k.cs.Y, k.cs.Z
	op := "AddRange/" + k.cs.Build
	class := ""
	switch {
	case start < 0:
		class = "start<0"
	case end >= L:
		class = "end>=L"
	case mod <= 0:
		class = "modulo<=0"
	}
	k.c.Mark(k.cs) // a range that never advances would not return
	var ps *align.PartitionSet
	var err error
	if !k.call(op, class, func() {
		if k.cs.Build == "text" {
			text := fmt.Sprintf("GTR,p0=%d-%d/%d\n", start+1, end+1, mod)
			ps, err = partition.NewParser(strings.NewReader(text)).Parse(L)
		} else {
			ps = align.NewPartitionSet(L)
			err = ps.AddRange("p0", "GTR", start, end, mod)
		}
	}) {
		return
	}
	switch {
	case class == "modulo<=0":
		if err == nil {
			k.c.Skip(c04SkipModulo)
		} else {
			k.c.Outcome(op + ":rejected:modulo<=0")
		}
		return
	case class != "":
		k.rejected(op, class, err)
		return
	case start > end:
		k.c.Skip(c04SkipReversedRange)
		return
	}
	if err != nil {
		k.viol(op, "unexpected-error", err.Error())
		return
	}
	for site := 0; site < L; site++ {
		want := -1
		if site >= start && site <= end && (site-start)%mod == 0 {
			want = 0
		}
		if ps.Partition(site) != want {
			k.viol(op, "map", fmt.Sprintf("site %d is in partition %d, want %d", site, ps.Partition(site), want))
			return
		}
	}
	k.c.Outcome(op + ":ok")
}

// ---- Concat / Append / Transpose / Diff

// c04ConcatModel: rows of a keep their place and get c's residues or gaps; rows
// only in c follow, left-padded with gaps.
func c04ConcatModel(a, c rows) (keep rows, added rows) {
	la, lc := c04Len(a), c04Len(c)
	inA := map[string]bool{}
	cSeq := map[string]string{}
	for _, r := range c {
		cSeq[r.Name] = r.Seq
	}
	for _, r := range a {
		inA[r.Name] = true
		if s, ok := cSeq[r.Name]; ok {
			keep = append(keep, row{r.Name, r.Seq + s})
		} else {
			keep = append(keep, row{r.Name, r.Seq + strings.Repeat("-", lc)})
		}
	}
	for _, r := range c {
		if !inA[r.Name] {
			added = append(added, row{r.Name, strings.Repeat("-", la) + r.Seq})
		}
	}
	return
}

func c04SortRows(r rows) rows {
	o := r.clone()
	sort.Slice(o, func(i, j int) bool { return o[i].Name < o[j].Name })
	return o
}

// checkConcat compares the result of a concatenation (rows got, Length() glen).
func (k *c04K) checkConcat(op string, got rows, glen int, a, c rows) bool {
	keep, added := c04ConcatModel(a, c)
	want := append(keep.clone(), added...)
	if len(got) != len(want) {
		k.viol(op, "row-count", fmt.Sprintf("got %v want %v", got, want))
		return false
	}
	if cl := c04Diff(got[:len(keep)], keep); cl != "" {
		k.viol(op, "paired-rows/"+cl, fmt.Sprintf("got %v want %v", got, want))
		return false
	}
	// the order of the rows that only the second alignment has is not prescribed
	if cl := c04Diff(c04SortRows(got[len(keep):]), c04SortRows(added)); cl != "" {
		k.viol(op, "added-rows/"+cl, fmt.Sprintf("got %v want %v", got, want))
		return false
	}
	if len(want) > 0 && glen >= 0 && glen != len(want[0].Seq) {
		k.viol(op, "length", fmt.Sprintf("Length()=%d, rows have %d columns", glen, len(want[0].Seq)))
		return false
	}
	return true
}

func c04Overlap(a, c rows) int {
	n := 0
	for _, x := range a {
		for _, y := range c {
			if x.Name == y.Name {
				n++
			}
		}
	}
	return n
}

func (k *c04K) concat() {
	a, c := k.cs.rows1(), k.cs.rows2()
	al, cl := k.build(a), k.build(c)
	if al == nil || cl == nil {
		return
	}
	class := ""
	switch {
	case len(a) == 0:
		class = "onto-empty"
	case len(c) == 0:
		class = "empty-operand"
	}
	var err error
	if !k.call("Concat", class, func() { err = al.Concat(cl) }) {
		return
	}
	if err != nil {
		if class != "" {
			k.c.Skip(c04SkipEmptyOperand)
			return
		}
		k.viol("Concat", "unexpected-error", err.Error())
		return
	}
	glen := al.Length()
	if len(a) == 0 && len(c) == 0 {
		glen = -1
	}
	if k.checkConcat("Concat", readRows(al), glen, a, c) {
		ov := c04Overlap(a, c)
		o := "some"
		switch {
		case ov == 0:
			o = "none"
		case ov == len(a) && ov == len(c):
			o = "all"
		}
		k.c.Outcome("Concat:ok:overlap-" + o)
		if len(a) > 0 && len(c) > 0 {
			k.c.Nontrivial("cat|" + a.String() + "|" + c.String())
		}
	}
}

func (k *c04K) appendOp() {
	a, c := k.cs.rows1(), k.cs.rows2()
	if c04Overlap(a, c) > 0 {
		k.c.Skip(c04SkipNameClash)
		return
	}
	if len(a) > 0 && len(c) > 0 && c04Len(a) != c04Len(c) {
		return // a ragged result is C01's subject
	}
	al, cl := k.build(a), k.build(c)
	if al == nil || cl == nil {
		return
	}
	var err error
	if !k.call("Append", "", func() { err = al.Append(cl) }) {
		return
	}
	if err != nil {
		if len(a) == 0 || len(c) == 0 {
			k.c.Skip(c04SkipEmptyOperand)
			return
		}
		k.viol("Append", "unexpected-error", err.Error())
		return
	}
	want := append(a.clone(), c...)
	if len(want) == 0 {
		if al.NbSequences() != 0 {
			k.viol("Append", "row-count", fmt.Sprintf("got %v want none", readRows(al)))
		}
		return
	}
	if k.same("Append", al, want) {
		k.c.Outcome("Append:ok")
	}
}

func (k *c04K) transpose() {
	in := k.cs.rows1()
	L := c04Len(in)
	al := k.build(in)
	if al == nil {
		return
	}
	var t, tt align.Alignment
	var err error
	if !k.call("Transpose", "", func() { t, err = al.Transpose() }) {
		return
	}
	if err != nil {
		k.viol("Transpose", "unexpected-error", err.Error())
		return
	}
	want := make(rows, L)
	for j := 0; j < L; j++ {
		b := make([]byte, len(in))
		for i := range in {
			b[i] = in[i].Seq[j]
		}
		want[j] = row{strconv.Itoa(j), string(b)}
	}
	if !k.same("Transpose", t, want) {
		return
	}
	if !k.call("Transpose", "", func() { tt, err = t.Transpose() }) {
		return
	}
	if err != nil {
		k.viol("Transpose", "twice/unexpected-error", err.Error())
		return
	}
	// names are replaced by indices (documented example): residues only
	back := make(rows, len(in))
	for i := range in {
		back[i] = row{strconv.Itoa(i), in[i].Seq}
	}
	if cl := c04Diff(readRows(tt), back); cl != "" {
		k.viol("Transpose", "twice/"+cl, fmt.Sprintf("got %v want %v", readRows(tt), back))
		return
	}
	k.c.Outcome("Transpose:ok")
	if len(in) != L {
		k.c.Nontrivial("tr|" + in.String())
	}
}

func (k *c04K) diff() {
	in := k.cs.rows1()
	al := k.build(in)
	if al == nil {
		return
	}
	d := in.clone()
	hasPoint := false
	for i := range in {
		hasPoint = hasPoint || strings.Contains(in[i].Seq, ".")
		if i == 0 {
			continue
		}
		b := []byte(in[i].Seq)
		for l := range b {
			if b[l] == in[0].Seq[l] {
				b[l] = '.'
			}
		}
		d[i].Seq = string(b)
	}
	if !k.call("DiffWithFirst", "", func() { al.DiffWithFirst() }) {
		return
	}
	if !k.same("DiffWithFirst", al, d) {
		return
	}
	// "Replaces match characters (.) by their corresponding characters on the
	// first sequence; if that is also a ".", leaves it unchanged"
	r := d.clone()
	for i := 1; i < len(d); i++ {
		b := []byte(d[i].Seq)
		for l := range b {
			if b[l] == '.' && d[0].Seq[l] != '.' {
				b[l] = d[0].Seq[l]
			}
		}
		r[i].Seq = string(b)
	}
	if !k.call("ReplaceMatchChars", "", func() { al.ReplaceMatchChars() }) {
		return
	}
	if !k.same("ReplaceMatchChars", al, r) {
		return
	}
	if !hasPoint {
		if !sameRows(r, in) {
			k.c.Fatal("oracle: diff round trip is not the identity on %v", in)
			return
		}
		k.c.Outcome("Diff:ok:round-trip")
	} else {
		k.c.Outcome("Diff:ok:with-points")
	}
	if !sameRows(d, in) {
		k.c.Nontrivial("diff|" + in.String())
	}
}

// ---- dispatch

func c04Check(c *mc.Ctx, cs c04Case) {
	c.Eval()
	if c04WarmKind != "" && cs.Warm == nil && len(cs.Seqs) > 0 {
		cs.Warm = c04WarmOf(c04WarmKind, cs.Seqs)
	}
	k := &c04K{c: c, cs: cs}
	switch cs.Op {
	case "SubAlign":
		k.subAlign()
	case "Resplit":
		k.resplit()
	case "SelectSites":
		k.selectSites()
	case "InverseCoordinates":
		k.inverseCoordinates()
	case "InversePositions":
		k.inversePositions()
	case "TrimSequences":
		k.trim()
	case "RefCoordinates":
		k.refCoordinates()
	case "RefSites":
		k.refSites()
	case "Split":
		k.split()
	case "AddRange":
		k.addRange()
	case "Concat":
		k.concat()
	case "Append":
		k.appendOp()
	case "Transpose":
		k.transpose()
	case "Diff":
		k.diff()
	default:
		if strings.HasPrefix(cs.Op, "cli-") {
			k.cli()
			return
		}
		if strings.HasPrefix(cs.Op, "large-") {
			c04Large(c, cs.X, strings.TrimPrefix(cs.Op, "large-"))
			return
		}
		c.Fatal("unknown op %q", cs.Op)
	}
}

// ---- enumeration

const (
	c04Alpha  = "AC-"
	c04AlphaD = "AC-." // for DiffWithFirst / ReplaceMatchChars
	c04Alpha2 = "A-"
)

// c04ForLists calls f with every list of length 1..maxLen over [-1, L+1].
func c04ForLists(L, maxLen int, f func(sites []int)) {
	buf := make([]int, maxLen)
	var rec func(d, n int)
	rec = func(d, n int) {
		if d == n {
			f(buf[:n])
			return
		}
		for v := -1; v <= L+1; v++ {
			buf[d] = v
			rec(d+1, n)
		}
	}
	for n := 1; n <= maxLen; n++ {
		rec(0, n)
	}
}

// c04ForMaps calls f with every map of L sites onto exactly nb blocks
// (every block non-empty), nb = 1..maxBlocks.
func c04ForMaps(L, maxBlocks int, f func(m []int)) {
	m := make([]int, L)
	var rec func(d, nb int)
	rec = func(d, nb int) {
		if d == L {
			seen := make([]bool, nb)
			for _, b := range m {
				seen[b] = true
			}
			for _, s := range seen {
				if !s {
					return
				}
			}
			f(m)
			return
		}
		for b := 0; b < nb; b++ {
			m[d] = b
			rec(d+1, nb)
		}
	}
	for nb := 1; nb <= maxBlocks; nb++ {
		rec(0, nb)
	}
}

// c04AlnTasks appends tasks that together enumerate every n-row alignment of
// length L over alpha; p letters of the n*L are fixed per task.
func c04AlnTasks(ts []mc.Task, class, alpha string, n, L, p int, run func(c *mc.Ctx, seqs []string)) []mc.Task {
	total := n * L
	p = min(max(p, 0), total)
	forEachStringLen(alpha, p, nil, func(pf []byte) bool {
		pf = append([]byte{}, pf...)
		ts = append(ts, mc.Task{Name: fmt.Sprintf("%s#n%dL%d/%s", class, n, L, pf), Run: func(c *mc.Ctx) {
			forEachStringLen(alpha, total, pf, func(s []byte) bool {
				seqs := make([]string, n)
				for i := range seqs {
					seqs[i] = string(s[i*L : (i+1)*L])
				}
				run(c, seqs)
				return !c.Expired()
			})
		}})
		return true
	})
	return ts
}

func c04RunExtract(maxList int) func(c *mc.Ctx, seqs []string) {
	return func(c *mc.Ctx, seqs []string) {
		L := len(seqs[0])
		for s := -1; s <= L+1; s++ {
			for l := -1; l <= L+1; l++ {
				c04Check(c, c04Case{Op: "SubAlign", Seqs: seqs, X: s, Y: l})
				c04Check(c, c04Case{Op: "InverseCoordinates", Seqs: seqs, X: s, Y: l})
			}
		}
		// lengths near the largest integer: start+length overflows
		for s := -1; s <= L+1; s++ {
			for _, l := range []int{math.MaxInt, math.MaxInt - 1, math.MaxInt - L, math.MinInt} {
				c04Check(c, c04Case{Op: "SubAlign", Seqs: seqs, X: s, Y: l})
				c04Check(c, c04Case{Op: "InverseCoordinates", Seqs: seqs, X: s, Y: l})
			}
		}
		for _, s := range []int{math.MaxInt, math.MinInt} {
			c04Check(c, c04Case{Op: "SubAlign", Seqs: seqs, X: s, Y: 1})
			c04Check(c, c04Case{Op: "InverseCoordinates", Seqs: seqs, X: s, Y: math.MaxInt})
		}
		for x := 0; x <= L; x++ {
			c04Check(c, c04Case{Op: "Resplit", Seqs: seqs, X: x})
		}
		for x := -1; x <= L+1; x++ {
			c04Check(c, c04Case{Op: "TrimSequences", Seqs: seqs, X: x})
			c04Check(c, c04Case{Op: "TrimSequences", Seqs: seqs, X: x, Flag: true})
		}
		c04ForLists(L, maxList, func(sites []int) {
			c04Check(c, c04Case{Op: "SelectSites", Seqs: seqs, Sites: sites})
			c04Check(c, c04Case{Op: "InversePositions", Seqs: seqs, Sites: sites})
		})
	}
}

func c04RunRef(maxList int) func(c *mc.Ctx, seqs []string) {
	return func(c *mc.Ctx, seqs []string) {
		L := len(seqs[0])
		refs := append(append([]string{}, rowNames[:len(seqs)]...), c04Unknown)
		for _, ref := range refs {
			for s := -1; s <= L+1; s++ {
				for l := -1; l <= L+1; l++ {
					c04Check(c, c04Case{Op: "RefCoordinates", Seqs: seqs, Ref: ref, X: s, Y: l})
				}
			}
			c04ForLists(L, maxList, func(sites []int) {
				c04Check(c, c04Case{Op: "RefSites", Seqs: seqs, Ref: ref, Sites: sites})
			})
		}
	}
}

var c04Builds = []string{"ranges", "modulo", "modloose", "string", "text", "sitewise"}

func c04RunSplit(c *mc.Ctx, seqs []string) {
	L := len(seqs[0])
	c04ForMaps(L, 3, func(m []int) {
		for _, b := range c04Builds {
			c04Check(c, c04Case{Op: "Split", Seqs: seqs, Map: m, Build: b})
		}
	})
	// a partition set one site longer than the alignment, every site assigned
	c04ForMaps(L+1, 2, func(m []int) {
		if len(c04Blocks(m)) == 2 {
			c04Check(c, c04Case{Op: "Split", Seqs: seqs, Map: m, Build: "ranges", PartLen: L + 1})
		}
	})
}

func c04RunShape(c *mc.Ctx, seqs []string) {
	c04Check(c, c04Case{Op: "Transpose", Seqs: seqs})
	c04Check(c, c04Case{Op: "Diff", Seqs: seqs})
}

// c04Operands lists every alignment of n rows (names: every ordered choice
// among pool) and length 0..maxL over c04Alpha; n = 0 gives the alignment without rows.
func c04Operands(pool []string, maxN, maxL int) (out []c04Case) {
	out = append(out, c04Case{Names: []string{}, Seqs: []string{}})
	var names [][]string
	var rec func(cur []string, n int)
	rec = func(cur []string, n int) {
		if len(cur) == n {
			names = append(names, append([]string{}, cur...))
			return
		}
	next:
		for _, p := range pool {
			for _, x := range cur {
				if x == p {
					continue next
				}
			}
			rec(append(cur, p), n)
		}
	}
	for n := 1; n <= maxN; n++ {
		names = names[:0]
		rec(nil, n)
		for _, nm := range names {
			for L := 0; L <= maxL; L++ {
				forEachAlignment(c04Alpha, n, L, func(seqs []string) bool {
					out = append(out, c04Case{Names: nm, Seqs: seqs})
					return true
				})
			}
		}
	}
	return
}

func c04Tasks(tier string) []mc.Task {
	thorough := tier == "thorough"
	var ts []mc.Task

	// (i) boundary values of partition ranges: cheap, first
	ts = append(ts, mc.Task{Name: "addrange#all", Run: func(c *mc.Ctx) {
		for L := 1; L <= 5; L++ {
			seqs := []string{strings.Repeat("A", L)}
			for s := -1; s <= L+1; s++ {
				for e := -1; e <= L+1; e++ {
					for m := -1; m <= 3; m++ {
						c04Check(c, c04Case{Op: "AddRange", Seqs: seqs, X: s, Y: e, Z: m, Build: "api"})
						if s >= 0 && e >= 0 && m >= 0 {
							c04Check(c, c04Case{Op: "AddRange", Seqs: seqs, X: s, Y: e, Z: m, Build: "text"})
						}
					}
				}
			}
		}
	}})

	// (ii) Transpose, DiffWithFirst / ReplaceMatchChars
	for n := 1; n <= 3; n++ {
		maxL := map[int]int{1: 5, 2: 4, 3: 2}[n]
		if thorough {
			maxL = map[int]int{1: 6, 2: 5, 3: 3}[n]
		}
		for L := 1; L <= maxL; L++ {
			ts = c04AlnTasks(ts, "shape", c04AlphaD, n, L, n*L-6, c04RunShape)
		}
	}

	// (ii') rows holding multi-byte characters (a FASTA file with an accented letter): Transpose and
	// DiffWithFirst work on bytes; all alignments of 2 and 3 rows of 3 bytes built from {A, C, é}
	ts = append(ts, mc.Task{Name: "shape#multibyte", Run: func(c *mc.Ctx) {
		var strs []string
		var rec func(cur string)
		rec = func(cur string) {
			if len(cur) == 3 {
				strs = append(strs, cur)
				return
			}
			for _, t := range []string{"A", "C", "\u00e9"} {
				if len(cur)+len(t) <= 3 {
					rec(cur + t)
				}
			}
		}
		rec("")
		for _, a := range strs {
			for _, b := range strs {
				c04RunShape(c, []string{a, b})
				for _, d := range strs {
					if strings.Contains(a+b+d, "\u00e9") && (d == strs[0] || d == strs[len(strs)-1] || d == b) {
						c04RunShape(c, []string{a, b, d})
					}
				}
			}
		}
	}})

	// (iii) Concat / Append on pairs of alignments
	catN, catL := 2, 2
	if thorough {
		catN, catL = 2, 3
	}
	firsts := c04Operands([]string{"a", "b"}, catN, catL)
	seconds := c04Operands([]string{"a", "b", "c"}, catN, catL)
	per := 4
	if thorough {
		per = 24
	}
	for chunk := 0; chunk < len(firsts); chunk += per {
		lo, hi := chunk, min(chunk+per, len(firsts))
		ts = append(ts, mc.Task{Name: fmt.Sprintf("concat#%d", chunk/per), Run: func(c *mc.Ctx) {
			for _, a := range firsts[lo:hi] {
				for _, b := range seconds {
					c04Check(c, c04Case{Op: "Concat", Names: a.Names, Seqs: a.Seqs, Names2: b.Names, Seqs2: b.Seqs})
					c04Check(c, c04Case{Op: "Append", Names: a.Names, Seqs: a.Seqs, Names2: b.Names, Seqs2: b.Seqs})
				}
				if c.Expired() {
					return
				}
			}
		}})
	}

	// (iv) extraction by window, list, complement, trimming; (v) reference coordinates
	type bound struct{ n, maxL, lists int }
	bounds := []bound{{1, 4, 3}, {2, 4, 3}, {3, 3, 2}}
	if thorough {
		bounds = []bound{{1, 6, 3}, {2, 5, 3}, {3, 4, 2}}
	}
	pcap := 5 // letters fixed per task at most (keeps the number of tasks bounded)
	if thorough {
		pcap = 4
	}
	for L := 0; L <= 6; L++ {
		for _, b := range bounds {
			if L > b.maxL {
				continue
			}
			ts = c04AlnTasks(ts, "extract", c04Alpha, b.n, L, min(b.n*L-4, pcap), c04RunExtract(b.lists))
			if L > 0 {
				ts = c04AlnTasks(ts, "ref", c04Alpha, b.n, L, min(b.n*L-4, pcap), c04RunRef(b.lists))
			}
		}
	}

	// (v') the same queries on an object that was another alignment before (rows rotated by one column /
	// reversed), answered every coordinate query in that state and was edited in place into the case's
	// rows: caches and indexes built for the earlier content must not show
	for _, kind := range []string{"rot", "rev"} {
		kind := kind
		warm := func(run func(c *mc.Ctx, seqs []string)) func(c *mc.Ctx, seqs []string) {
			return func(c *mc.Ctx, seqs []string) {
				c04WarmKind = kind
				defer func() { c04WarmKind = "" }()
				run(c, seqs)
			}
		}
		for _, b := range []struct{ n, L int }{{1, 4}, {2, 3}, {2, 4}} {
			if b.n*b.L > 6 && !thorough {
				continue
			}
			ts = c04AlnTasks(ts, "warm-"+kind+"-ref", c04Alpha, b.n, b.L, min(b.n*b.L-4, pcap), warm(c04RunRef(2)))
			ts = c04AlnTasks(ts, "warm-"+kind+"-extract", c04Alpha, b.n, b.L, min(b.n*b.L-4, pcap), warm(c04RunExtract(2)))
		}
	}

	// (vi) Split
	for L := 1; L <= 6; L++ {
		for n := 1; n <= 3; n++ {
			alpha := c04Alpha
			switch {
			case n == 1, n == 2 && L <= 4, n == 3 && L <= 3 && (L <= 2 || thorough):
			case thorough && n == 2 && L <= 6:
				alpha = c04Alpha2
			default:
				continue
			}
			ts = c04AlnTasks(ts, "split", alpha, n, L, min(n*L-3, pcap+1), c04RunSplit)
		}
	}

	// (vi') rows of every length 8..40 (and around 64, 256): the first row cycles through the amino acids and
	// symbols, row j+1 differs from it at position j only - by the letter whose code differs in the lowest bit
	// (D/E, F/G, H/I, L/M, P/Q, R/S, V/W, X/Y, ...) when there is one, else by another letter - so that a
	// differing column stands after identical ones at every offset of an 8- or 16-column block
	// partition sets of many partitions (a code per site stored in a narrow integer would wrap at 128 / 256):
	// N partitions of one site each, and N partitions interleaved over 2N sites, declared three ways
	ts = append(ts, mc.Task{Name: "split#many-partitions", Run: func(c *mc.Ctx) {
		for _, n := range []int{127, 128, 129, 130, 200, 255, 256, 257, 258, 300} {
			for _, per := range []int{1, 2} {
				L := n * per
				a, b := make([]byte, L), make([]byte, L)
				m := make([]int, L)
				for i := range m {
					m[i] = i % n
					a[i], b[i] = "AC"[(i/3)%2], "CA-"[i%3]
				}
				for _, bd := range []string{"sitewise", "ranges", "text"} {
					c04Check(c, c04Case{Op: "Split", Seqs: []string{string(a), string(b)}, Map: m, Build: bd})
				}
			}
			if c.Expired() {
				return
			}
		}
	}})
	ts = append(ts, mc.Task{Name: "shape#length-sweep", Run: func(c *mc.Ctx) {
		const cyc = "ADEFGHILMPQRSVWXYKNT-C"
		var lens []int
		for l := 8; l <= 40; l++ {
			lens = append(lens, l)
		}
		lens = append(lens, 63, 64, 65, 255, 256, 257)
		for _, L := range lens {
			for _, off := range []int{0, 3} {
				ref := make([]byte, L)
				for j := range ref {
					ref[j] = cyc[(j+off)%len(cyc)]
				}
				step := 1
				if L > 40 {
					step = 7
				}
				for j0 := 0; j0 < L; j0 += 3 * step {
					seqs := []string{string(ref)}
					for j := j0; j < min(L, j0+3*step); j += step {
						b := append([]byte{}, ref...)
						if x := b[j] ^ 1; x >= 'A' && x <= 'Z' {
							b[j] = x
						} else {
							b[j] = 'Z'
						}
						seqs = append(seqs, string(b))
					}
					c04Check(c, c04Case{Op: "Diff", Seqs: seqs})
					c04Check(c, c04Case{Op: "Transpose", Seqs: seqs})
				}
			}
			if c.Expired() {
				return
			}
		}
	}})
	// (vi'') a large selection (512 rows x 512 of 600 sites = 2^18 cells) with 2 and 4 processors under the
	// controlled scheduler: SelectSites, SubAlign and Transpose are sequential operations; code that shares
	// the rows out between goroutines is explored with one preemption and must give the same rows in the same order
	for _, procs := range []int{2, 4} {
		procs := procs
		ts = append(ts, mc.Task{Name: fmt.Sprintf("large#procs%d", procs), Run: func(c *mc.Ctx) { c04Large(c, procs, "") }})
	}

	// (vii) the commands
	ts = append(ts, c04CLITasks(thorough)...)
	return ts
}

// c04Large: see (vi”) in c04Tasks.
func c04Large(c *mc.Ctx, procs int, only string) {
	const n, L = 512, 600
	in := make(rows, n)
	for i := range in {
		b := make([]byte, L)
		for j := range b {
			b[j] = "ACGT-N"[(i*7+j*3+(i*j)%5+(j>>(i%8)))%6]
		}
		in[i] = row{Name: fmt.Sprintf("s%03d", (i*37)%n), Seq: string(b)} // names not in sorted order
	}
	sites := make([]int, 0, 512)
	for j := 0; j < 512; j++ {
		sites = append(sites, (j*7)%L)
	}
	defer runtime.GOMAXPROCS(runtime.GOMAXPROCS(procs))
	for _, op := range []string{"SelectSites", "SubAlign", "Transpose"} {
		op := op
		if only != "" && only != op {
			continue
		}
		payload := c04Case{Op: "large-" + op, X: procs}
		mc.SchedProbeJudged(c, "C04/"+op+"/large", fmt.Sprintf("%s on a %dx%d alignment, GOMAXPROCS %d", op, n, L, procs), 1, payload, func() any {
			al, err := mkAlign(align.NUCLEOTIDS, in)
			if err != nil {
				return "build: " + err.Error()
			}
			var out align.Alignment
			switch op {
			case "SelectSites":
				out, err = al.SelectSites(sites)
			case "SubAlign":
				out, err = al.SubAlign(3, 590)
			case "Transpose":
				out, err = al.Transpose()
			}
			if err != nil {
				return "error: " + err.Error()
			}
			return readRows(out)
		}, func(a, b any) bool { return fmt.Sprint(a) == fmt.Sprint(b) }, func(first any) string {
			got, ok := first.(rows)
			if !ok {
				return fmt.Sprint(first)
			}
			var want rows
			switch op {
			case "SelectSites":
				want = c04Pick(in, sites)
			case "SubAlign":
				want = c04Pick(in, c04Range(3, 590))
			case "Transpose":
				want = make(rows, L)
				for j := range want {
					b := make([]byte, n)
					for i := range in {
						b[i] = in[i].Seq[j]
					}
					want[j] = row{Name: strconv.Itoa(j), Seq: string(b)}
				}
			}
			if len(got) != len(want) {
				return fmt.Sprintf("%d rows, want %d", len(got), len(want))
			}
			for i := range want {
				if got[i] != want[i] {
					return fmt.Sprintf("row %d is %s (%.20s…), want %s (%.20s…)", i, got[i].Name, got[i].Seq, want[i].Name, want[i].Seq)
				}
			}
			return ""
		})
		c.Eval()
		c.Nontrivial(fmt.Sprintf("large|%s|%d", op, procs))
		c.Outcome("large:" + op + ":ok")
	}
}

func init() {
	mc.Register(&mc.Prop{
		ID:    "C04",
		Level: "exploration",
		Rule: cliStreamRule[1:] + "(Free-running complement under the race detector: 8 goroutines doing this property's operations on objects of their own must get the values the same work gives alone.)  " + "bounded-exhaustive enumeration, every case on a fresh alignment (and, for all 1x4 and 2x3 [thorough: 2x4] alignments, the window/list/complement/trimming/reference-coordinate cases also on an object that was first the same rows rotated by one column, resp. reversed, answered every coordinate query in that state and was edited in place residue by residue), results compared (names, row order, residues, Length()) with column picking on the model rows; alignments are all n-row alignments of the given lengths over {A,C,-} (rows named a,b,c); integer arguments range over every value of [-1, L+1] (windows also with lengths at and near the largest and smallest integer); Transpose / DiffWithFirst also on rows of 3 bytes built from {A, C, U+00E9}. " +
			"(iv) n=1 L=0..4, n=2 L=0..4, n=3 L=0..3 (thorough: n=1 L<=6, n=2 L<=5, n=3 L<=4): SubAlign and InverseCoordinates for all (start,length) in [-1,L+1]^2 (the inverse windows also extracted and concatenated as subseq --reverse does, followed by a further extraction from the same alignment); SubAlign(0,k) ++ SubAlign(k,L-k) for k=0..L; TrimSequences for all sizes x both ends; SelectSites and InversePositions for all site lists of length 1..3 (n=3: 1..2) over [-1,L+1], repeats and any order. " +
			"(v) same alignments with L>=1, every row and one unknown name as reference: RefCoordinates for all (start,length) in [-1,L+1]^2, followed by SubAlign of the returned window; RefSites for the same site lists. " +
			"(vi) Split: n=1 L=1..6, n=2 L=1..4, n=3 L=1..2 (thorough: n=3 L=3, and n=2 L=5..6 over {A,-}) x every map of the L sites onto exactly 1, 2 or 3 blocks x 6 ways of building the PartitionSet (one AddRange call per site in site order, so that partition names come back after others were declared; AddRange with runs; with greedy arithmetic progressions a-b/k, end on the last site; the same with the end extended to just before the next multiple; String() of the first re-parsed by io/partition; a partition file with the modulo forms parsed by io/partition), plus every 2-block map of L+1 sites (must be refused). " +
			"(i) AddRange on L=1..5 for all (start,end) in [-1,L+1]^2 x modulo -1..3, through the API and through a one-line partition file. " +
			"(ii) Transpose (once: row j named j is column j; twice: residues) and DiffWithFirst then ReplaceMatchChars over {A,C,-,.}: n=1 L<=5, n=2 L<=4, n=3 L<=2 (thorough +1); the same two on rows of every length 8..40 and 63..65, 255..257 whose first row cycles through 22 amino acids and symbols and whose other rows differ from it at one position each (by the letter whose code differs in the lowest bit where there is one); SelectSites (512 of 600 sites), SubAlign and Transpose on a 512x600 alignment with GOMAXPROCS 2 and 4 under the controlled scheduler (sequential operations: one execution unless they spawn goroutines; rows in the same order under every interleaving). " +
			"(iii) Concat and Append for every pair (first: 0..2 rows named from {a,b} in any order, second: 0..2 rows named from {a,b,c} in any order, lengths 0..2 (thorough 0..3)). " +
			"(vii) the commands subseq (plain, --ref-seq with every row and an unknown name, --reverse), subsites (--sitefile; plain, --ref-seq, --reverse), extract (one block for all (start,end) in [-1,L+1]^2, and every ordered pair of blocks lying inside the alignment, overlapping or not; plain and --ref-seq), split, concat (pairs as in (iii) with 1..2 rows and lengths 1..2), trim seq, executed in process (cmd.RootCmd) on FASTA files: all 2-row alignments of length 1..3 (thorough 1..4) over {A,C,-} with the same argument ranges (site lists of length 1..2, at L=4 length 1 and single extract blocks only; partition files for every map onto 1..3 blocks in range and modulo form, and every 2-block map of L+1 sites). " +
			"A case is non-trivial when the expected result differs from the input and from the empty alignment (proper window, non-zero trim, reference with a gap before or inside the window, two or more blocks, both operands non-empty).",
		Assumptions: []string{
			"positions are 0-based; a window (start,length) is inside the alignment iff 0 <= start, 0 <= length and start+length <= L; an empty window inside the alignment may be answered by an empty alignment or by an error",
			"TrimSequences with size == L is documented to be an error; success with empty rows is accepted too; size < 0 and size > L must be errors",
			"InverseCoordinates: the returned windows laid end to end must be exactly the columns outside the window in ascending order (maximal windows are not required)",
			"RefSites may answer in the addressed order or, as the subsites documentation says 'a set of positions', ascending without repeats; sites >= the reference's ungapped length but inside the alignment are skipped (DESIGN §5)",
			"an unknown reference name must be an error (doc comment of RefCoordinates/RefSites); Split with fewer than two partitions must be an error (doc comment of Split)",
			"Concat: rows of the receiver keep their place; rows only the argument has follow in any order; an alignment without rows counts as having no column; an error on such an operand is accepted, a crash is not",
			"Transpose replaces names by indices (documented example), so transposing twice is compared on residues only; L = 0 is not transposed",
			"commands: docs/commands/subseq.md says a length running past the end 'will stop at the end of the alignment' while the statement asks for an error: for start inside and start+length > L both an error and the truncated window are accepted; every other out-of-range argument must make the command fail",
		},
		// free-running complement: goroutines that each own their objects must get what they get alone (harness/racepass)
		Post:  func(m *mc.Master) { m.RacePass("own-extract") },
		Tasks: func(tier string) []mc.Task { return append(c04Tasks(tier), cliStreamTasks("C04")...) },
		Replay: func(c *mc.Ctx, payload json.RawMessage) {
			if cliStreamReplay(c, payload) {
				return
			}
			var cs c04Case
			if err := json.Unmarshal(payload, &cs); err != nil {
				c.Fatal("bad payload: %v", err)
				return
			}
			c04Check(c, cs)
		},
		Vacuity: func(tier string, t *mc.Totals) error {
			if t.Evaluations < 5000000 {
				return fmt.Errorf("only %d evaluations", t.Evaluations)
			}
			need := []string{
				"SubAlign:ok", "SubAlign:rejected:end>L", "SubAlign:rejected:start<0", "Resplit:ok",
				"SelectSites:ok", "SelectSites:rejected:site<0", "SelectSites:rejected:site>L",
				"InverseCoordinates:ok", "InversePositions:ok", "InversePositions:rejected:site<0",
				"TrimSequences:ok:start=true", "TrimSequences:ok:start=false", "TrimSequences:rejected:size>L",
				"RefCoordinates:ok", "RefCoordinates:rejected:end>U", "RefCoordinates:rejected:unknown-reference",
				"RefSites:rejected:site<0",
				"Split:ok:ranges", "Split:ok:modulo", "Split:ok:modloose", "Split:ok:string", "Split:ok:text", "Split:rejected:single-partition",
				"AddRange/api:ok", "AddRange/text:ok", "AddRange/api:rejected:end>=L",
				"Concat:ok:overlap-none", "Concat:ok:overlap-some", "Concat:ok:overlap-all", "Append:ok",
				"Transpose:ok", "Diff:ok:round-trip", "Diff:ok:with-points",
				"cli-subseq:ok", "cli-subseq:ok:reverse", "cli-subseq:ok:ref", "cli-subseq:rejected:start<0",
				"cli-subsites:ok", "cli-subsites:ok:reverse", "cli-subsites:rejected:site<0",
				"cli-split:ok", "cli-concat:ok", "cli-extract:ok:1-blocks", "cli-extract:ok:2-blocks", "cli-extract:ok:ref", "cli-extract:rejected:end>L", "cli-trimseq:ok:start=true", "cli-trimseq:ok:start=false",
			}
			for _, o := range need {
				if _, ok := t.OutcomeSet[o]; !ok {
					return fmt.Errorf("outcome class %q never observed", o)
				}
			}
			if t.Nontrivial < 100000 {
				return fmt.Errorf("only %d non-trivial cases", t.Nontrivial)
			}
			return nil
		},
	})
}
