package props

// C19 — queries never modify their input; copies share nothing with the original.
//
// Two-step histories on real objects.  Step 1: one read-only or copy-producing
// operation (c19_ops.go) on a fresh container.  Oracle: the complete private
// state of the container (rows, residues, name index, cached length, alphabet,
// duplicate-name policy, comments, and the identity of every row buffer and
// row object) is bit-for-bit the same before and after.  For clones,
// sub-alignments and site selections additionally: no row buffer and no row
// object of the result overlaps one of the original.  Step 2 (ownership): one
// in-place mutator (c19_muts.go) applied to the copy => the original's state is
// unchanged; applied to the original => the copy's state is unchanged.
// Randomised operations are executed under EVERY sequence of RNG answers.
//
// The oracle never looks at what an operation returns (that is the business of
// the other properties): it only compares private-state dumps of objects that
// the statement says must not be touched.

import (
	"encoding/json"
	"fmt"
	"sort"
	"strconv"
	"strings"
	"unsafe"

	"verif/harness/mc"

	"github.com/evolbioinfo/goalign/align"
	"github.com/evolbioinfo/goalign/verifrt/vrt"
)

// ---------------------------------------------------------------- instances

type c19Inst struct {
	Bag      bool     `json:"bag,omitempty"` // plain sequence set (else alignment)
	Alpha    int      `json:"alphabet"`
	Rows     rows     `json:"rows"`
	Comments []string `json:"comments,omitempty"`
	Policy   int      `json:"policy,omitempty"`
	key      string   // cached String()
}

func (in *c19Inst) n() int { return len(in.Rows) }

// L is the number of columns (length of the first row), -1 for an empty container.
func (in *c19Inst) L() int {
	if len(in.Rows) == 0 {
		return -1
	}
	return len(in.Rows[0].Seq)
}

func (in *c19Inst) build() (align.SeqBag, error) {
	var sb align.SeqBag
	if in.Bag {
		sb = align.NewSeqBag(in.Alpha)
	} else {
		sb = align.NewAlign(in.Alpha)
	}
	for i, r := range in.Rows {
		cm := ""
		if i < len(in.Comments) {
			cm = in.Comments[i]
		}
		if err := sb.AddSequence(r.Name, r.Seq, cm); err != nil {
			return nil, err
		}
	}
	sb.IgnoreIdentical(in.Policy)
	return sb, nil
}

func (in *c19Inst) String() string {
	if in.key == "" {
		in.key = in.render()
	}
	return in.key
}

func (in *c19Inst) render() string {
	k := "alignment"
	if in.Bag {
		k = "seqbag"
	}
	s := fmt.Sprintf("%s(alphabet=%d)[%s]", k, in.Alpha, in.Rows)
	if in.Policy != 0 {
		s += fmt.Sprintf("policy=%d", in.Policy)
	}
	if len(in.Comments) > 0 {
		s += fmt.Sprintf("comments=%q", in.Comments)
	}
	return s
}

// ---------------------------------------------------------------- snapshots

// c19Snap is everything that belongs to a container: the overlay dump of its
// private fields plus the comment of every row (read through IterateAll).
type c19Snap struct {
	St       *align.VerifState
	Comments []string
}

func c19Snapshot(sb align.SeqBag) c19Snap {
	var s c19Snap
	sb.IterateAll(func(name string, _ []uint8, comment string) bool {
		s.Comments = append(s.Comments, comment)
		return false
	})
	s.St = align.VerifDump(sb)
	return s
}

func (s c19Snap) rows() rows {
	var out rows
	if s.St == nil {
		return out
	}
	for _, r := range s.St.Rows {
		out = append(out, row{r.Name, r.Seq})
	}
	return out
}

// c19Diff compares two snapshots of the same object; clause=="" when they are
// bit-for-bit equal.  The clause names the first component that differs.
func c19Diff(a, b c19Snap) (clause, desc string) {
	x, y := a.St, b.St
	if x == nil || y == nil {
		if x != y {
			return "kind", "the object is not a goalign container any more"
		}
		return "", ""
	}
	if x.IsAlign != y.IsAlign {
		return "kind", "alignment/sequence-set kind changed"
	}
	if len(x.Rows) != len(y.Rows) {
		return "rows", fmt.Sprintf("%d rows [%s] became %d rows [%s]", len(x.Rows), a.rows(), len(y.Rows), b.rows())
	}
	for i := range x.Rows {
		if x.Rows[i].Seq != y.Rows[i].Seq {
			return "residues", fmt.Sprintf("rows [%s] became [%s]", a.rows(), b.rows())
		}
	}
	for i := range x.Rows {
		if x.Rows[i].Name != y.Rows[i].Name {
			return "names", fmt.Sprintf("rows [%s] became [%s]", a.rows(), b.rows())
		}
	}
	if len(a.Comments) != len(b.Comments) {
		return "comments", fmt.Sprintf("comments %q became %q", a.Comments, b.Comments)
	}
	for i := range a.Comments {
		if a.Comments[i] != b.Comments[i] {
			return "comments", fmt.Sprintf("comments %q became %q", a.Comments, b.Comments)
		}
	}
	if x.Length != y.Length {
		return "cached-length", fmt.Sprintf("cached length %d became %d (rows [%s])", x.Length, y.Length, b.rows())
	}
	if x.Alphabet != y.Alphabet {
		return "alphabet", fmt.Sprintf("alphabet %d became %d", x.Alphabet, y.Alphabet)
	}
	if x.Policy != y.Policy {
		return "policy", fmt.Sprintf("duplicate-name policy %d became %d", x.Policy, y.Policy)
	}
	if len(x.Index) != len(y.Index) {
		return "name-index", fmt.Sprintf("name index has %d entries, had %d (rows [%s])", len(y.Index), len(x.Index), b.rows())
	}
	for i := range x.Index {
		if x.Index[i] != y.Index[i] {
			return "name-index", fmt.Sprintf("name index entry %+v became %+v (rows [%s])", x.Index[i], y.Index[i], b.rows())
		}
	}
	for i := range x.Rows {
		if x.Rows[i].Obj != y.Rows[i].Obj {
			return "row-object-identity", fmt.Sprintf("row %d (%s) is held by another object than before (same content: [%s])", i, x.Rows[i].Name, b.rows())
		}
	}
	for i := range x.Rows {
		if x.Rows[i].Buf != y.Rows[i].Buf || x.Rows[i].Cap != y.Rows[i].Cap {
			return "row-buffer-identity", fmt.Sprintf("row %d (%s) is stored in another buffer than before (same content: [%s])", i, x.Rows[i].Name, b.rows())
		}
	}
	return "", ""
}

// c19Shares decides structurally whether two containers share a row object or
// a byte of row buffer ([Buf,Buf+Cap) intervals intersect).
func c19Shares(a, b *align.VerifState) (obj, buf bool, desc string) {
	if a == nil || b == nil {
		return
	}
	for i, x := range a.Rows {
		for j, y := range b.Rows {
			if x.Obj != 0 && x.Obj == y.Obj {
				obj = true
				if desc == "" {
					desc = fmt.Sprintf("row %d of the result IS row object %d (%s) of the original", j, i, x.Name)
				}
			}
			if x.Cap > 0 && y.Cap > 0 && x.Buf < y.Buf+uintptr(y.Cap) && y.Buf < x.Buf+uintptr(x.Cap) {
				buf = true
				if desc == "" || !strings.Contains(desc, "buffer") {
					d := fmt.Sprintf("row %d of the result is stored inside the buffer of row %d (%s) of the original (offset %d, capacity %d of %d)", j, i, x.Name, int64(y.Buf)-int64(x.Buf), y.Cap, x.Cap)
					if desc == "" {
						desc = d
					} else {
						desc += "; " + d
					}
				}
			}
		}
	}
	return
}

// c19SeqShares: does a returned Sequence keep its residues inside a row buffer of st?
func c19SeqShares(st *align.VerifState, s align.Sequence) bool {
	if st == nil || s == nil {
		return false
	}
	var sl []uint8
	if pn, _ := mc.Guard(func() { sl = s.SequenceChar() }); pn || cap(sl) == 0 {
		return false
	}
	p := uintptr(unsafe.Pointer(unsafe.SliceData(sl)))
	for _, x := range st.Rows {
		if x.Cap > 0 && x.Buf < p+uintptr(cap(sl)) && p < x.Buf+uintptr(x.Cap) {
			return true
		}
	}
	return false
}

// ---------------------------------------------------------------- cases

type c19Case struct {
	Inst    c19Inst     `json:"input"`
	Op      string      `json:"op"`
	Arg     string      `json:"arg,omitempty"`
	Mut     string      `json:"mutator,omitempty"` // "" = step 1 only
	Dir     string      `json:"mutated,omitempty"` // "copy" | "original"
	Choices []vrt.Point `json:"rng_answers,omitempty"`
}

func (cs *c19Case) String() string {
	s := fmt.Sprintf("%s(%s) on %s", cs.Op, cs.Arg, cs.Inst.String())
	if len(cs.Choices) > 0 {
		s += " rng=[" + mc.RenderPoints(cs.Choices) + "]"
	}
	if cs.Mut != "" {
		s += fmt.Sprintf(", then %s applied to the %s", cs.Mut, cs.Dir)
	}
	return s
}

type c19Vio struct{ Clause, Desc string }

// c19Res is the outcome of one execution of a case.
type c19Res struct {
	Vios       []c19Vio
	Fatal      string // harness problem
	OpPanic    string // the operation panicked (tolerated: not this property's clause; the input is still compared)
	OpErr      bool   // the operation reported an error / produced nothing
	NOuts      int
	OutN, OutL int  // shape of the largest container produced
	OutAlign   bool // the produced containers are alignments
	SharesBuf  bool // informational for operations outside the ownership clause
	SharesObj  bool
	SeqShares  bool
	MutEffect  bool // the mutator changed its target
	MutPanic   string
	OutAlpha   int
	OutNames   []string
	ExitedInOp bool
}

func (r *c19Res) vio(clause, format string, a ...any) {
	r.Vios = append(r.Vios, c19Vio{clause, fmt.Sprintf(format, a...)})
}

// c19Env is what an operation sees.
type c19Env struct {
	inst    *c19Inst
	in      align.SeqBag
	al      align.Alignment // nil for a plain sequence set
	aux     []align.SeqBag  // further inputs that must stay unchanged (reference ORFs, the other operand …)
	auxName []string
	auxSnap []c19Snap
	outs    []align.SeqBag   // containers produced
	outSeqs []align.Sequence // sequences produced
	failed  bool             // the operation reported an error
}

func (e *c19Env) addAux(name string, sb align.SeqBag) {
	e.aux = append(e.aux, sb)
	e.auxName = append(e.auxName, name)
	e.auxSnap = append(e.auxSnap, c19Snapshot(sb))
}

func (e *c19Env) out(sb align.SeqBag, err error) {
	if err != nil || sb == nil {
		e.failed = true
		return
	}
	if align.VerifDump(sb) == nil { // typed nil or foreign
		e.failed = true
		return
	}
	e.outs = append(e.outs, sb)
}

// c19Body executes one case on fresh objects.  It is the body of a controlled
// execution for randomised operations and is called plainly otherwise.
func c19Body(cs *c19Case) *c19Res {
	res := &c19Res{}
	op := c19OpByName[cs.Op]
	if op == nil {
		res.Fatal = "unknown operation " + cs.Op
		return res
	}
	in, err := cs.Inst.build()
	if err != nil {
		res.Fatal = "cannot build the input: " + err.Error()
		return res
	}
	e := &c19Env{inst: &cs.Inst, in: in}
	e.al, _ = in.(align.Alignment)
	if cs.Inst.Bag {
		e.al = nil
	}
	var before c19Snap
	if cs.Mut == "" {
		before = c19Snapshot(in)
	}
	pn, msg, exited := mc.GuardExit(func() { op.Run(e, cs.Arg) })
	if pn {
		if strings.Contains(msg, "BudgetExceeded") {
			panic(vrt.BudgetExceeded{})
		}
		if strings.Contains(msg, "replay diverged") {
			panic(msg)
		}
		if mc.PanicSite(msg) == "?" {
			res.Fatal = "panic outside goalign while running " + cs.Op + "(" + cs.Arg + "): " + msg
			return res
		}
		res.OpPanic = msg
		e.failed = true
	}
	if exited {
		res.ExitedInOp = true
		e.failed = true
	}
	after := c19Snapshot(in)
	res.OpErr = e.failed
	if cs.Mut == "" {
		if cl, d := c19Diff(before, after); cl != "" {
			res.vio("input-modified/"+cl, "%s", d)
		}
		for i, a := range e.aux {
			if cl, d := c19Diff(e.auxSnap[i], c19Snapshot(a)); cl != "" {
				res.vio("argument-modified/"+e.auxName[i]+"/"+cl, "%s", d)
			}
		}
	}
	res.NOuts = len(e.outs)
	var outSnaps []c19Snap
	for _, o := range e.outs {
		s := c19Snapshot(o)
		outSnaps = append(outSnaps, s)
		if n := len(s.St.Rows); n > res.OutN {
			res.OutN = n
		}
		for _, r := range s.St.Rows {
			if len(r.Seq) > res.OutL {
				res.OutL = len(r.Seq)
			}
		}
		res.OutAlign = s.St.IsAlign
		res.OutAlpha = s.St.Alphabet
		if res.OutNames == nil {
			for _, r := range s.St.Rows {
				res.OutNames = append(res.OutNames, r.Name)
			}
		}
		obj, buf, d := c19Shares(after.St, s.St)
		res.SharesObj = res.SharesObj || obj
		res.SharesBuf = res.SharesBuf || buf
		if op.Own && cs.Mut == "" {
			if obj {
				res.vio("result-shares-row-object", "%s", d)
			}
			if buf {
				res.vio("result-shares-row-buffer", "%s", d)
			}
		}
	}
	for _, s := range e.outSeqs {
		if c19SeqShares(after.St, s) {
			res.SeqShares = true
		}
	}
	if cs.Mut == "" || len(e.outs) == 0 {
		return res
	}
	// ---- step 2: one in-place mutator on the copy (resp. the original); the other side must not change
	switch cs.Dir {
	case "copy":
		for k, o := range e.outs {
			eff, mp, fatal := c19ApplyMut(o, cs.Mut, outSnaps[k])
			if fatal != "" {
				res.Fatal = fatal
				return res
			}
			res.MutEffect = res.MutEffect || eff
			if mp != "" {
				res.MutPanic = mp
			}
			if cl, d := c19Diff(after, c19Snapshot(in)); cl != "" {
				res.vio("copy-mutation-changes-original/"+cl, "result %d of %d mutated; original: %s", k+1, len(e.outs), d)
				break
			}
		}
	case "original":
		eff, mp, fatal := c19ApplyMut(in, cs.Mut, after)
		if fatal != "" {
			res.Fatal = fatal
			return res
		}
		res.MutEffect, res.MutPanic = eff, mp
		for k, o := range e.outs {
			if cl, d := c19Diff(outSnaps[k], c19Snapshot(o)); cl != "" {
				res.vio("original-mutation-changes-copy/"+cl, "result %d of %d: %s", k+1, len(e.outs), d)
				break
			}
		}
	default:
		res.Fatal = "bad direction " + cs.Dir
	}
	return res
}

var c19RandOpts = vrt.Options{RandMode: vrt.RandChoice, CatchExit: true, MaxRand: 5000}

func c19Opts(op *c19Op, cs *c19Case) vrt.Options {
	o := c19RandOpts
	if op.FloatReps != nil {
		o.FloatReps = op.FloatReps(cs)
	}
	return o
}

// c19Exec runs one case (under the recorded RNG answers for a randomised
// operation) and reports.  Used by enumeration and replay alike.
func c19Exec(c *mc.Ctx, cs *c19Case) *c19Res {
	op := c19OpByName[cs.Op]
	if op == nil {
		c.Fatal("unknown operation %q", cs.Op)
		return nil
	}
	var res *c19Res
	if op.Rand {
		ex := &mc.Explorer{Ctx: c, NoCount: true, Opts: c19Opts(op, cs), Body: func() any { return c19Body(cs) }}
		x := ex.RunOnce(cs.Choices)
		if x.Exec.Diverged != "" {
			c.Fatal("replay diverged: %s (case %s)", x.Exec.Diverged, cs.String())
			return nil
		}
		res = c19FromExecution(cs, x)
	} else {
		res = c19Body(cs)
	}
	c19Report(c, cs, res)
	return res
}

func c19FromExecution(cs *c19Case, x *mc.Execution) *c19Res {
	if x.Panic != nil {
		r := &c19Res{}
		if x.Exec.RandBudget {
			r.OpPanic = "more than 5000 random draws"
			r.OpErr = true
			return r
		}
		r.Fatal = fmt.Sprintf("execution panicked outside the guarded call: %v (case %s)", x.Panic, cs.String())
		return r
	}
	return x.Result.(*c19Res)
}

func c19OpClass(cs *c19Case) string {
	op := c19OpByName[cs.Op]
	if op != nil && op.Class != nil {
		return cs.Op + "(" + op.Class(cs.Arg) + ")"
	}
	return cs.Op
}

func c19PointsKey(ps []vrt.Point) string {
	if len(ps) == 0 {
		return ""
	}
	b := make([]byte, 0, 4*len(ps))
	for _, p := range ps {
		b = strconv.AppendInt(b, int64(p.Chosen), 10)
		b = append(b, '/')
		b = strconv.AppendInt(b, int64(p.N), 10)
		b = append(b, ' ')
	}
	return string(b)
}

func c19MutClass(m string) string {
	if i := strings.IndexByte(m, ':'); i >= 0 {
		return m[:i]
	}
	return m
}

func c19Report(c *mc.Ctx, cs *c19Case, res *c19Res) {
	c.Eval()
	if res.Fatal != "" {
		c.Fatal("%s", res.Fatal)
		return
	}
	cls := c19OpClass(cs)
	for _, v := range res.Vios {
		c.Violation("C19/"+cls+"/"+v.Clause, fmt.Sprintf("%s: %s", cs.String(), v.Desc), cs)
	}
	if res.OpPanic != "" {
		c.Count("op_panicked_input_still_compared:"+cs.Op+"@"+mc.PanicSite(res.OpPanic), 1)
	}
	if cs.Mut == "" {
		c.Transition(1)
		switch {
		case len(res.Vios) > 0:
			c.Outcome(cs.Op + ":violation")
		case res.OpPanic != "":
			c.Outcome(cs.Op + ":panic-input-unchanged")
		case res.OpErr:
			c.Outcome(cs.Op + ":error-input-unchanged")
			c.Count("op_err:"+cs.Op, 1)
		default:
			c.Outcome(cs.Op + ":ok-input-unchanged")
			c.Count("op_ok:"+cs.Op, 1)
			c.Nontrivial("q|" + cs.Op + "|" + cs.Arg + "|" + cs.Inst.String() + "|" + c19PointsKey(cs.Choices))
		}
		op := c19OpByName[cs.Op]
		if !op.Own {
			if res.SharesBuf || res.SharesObj {
				c.Count("info_result_shares_rows_with_input(not in the ownership clause):"+cls, 1)
			}
			if res.SeqShares {
				c.Count("info_returned_sequence_lives_in_input_buffer(not in the ownership clause):"+cls, 1)
			}
		}
		return
	}
	c.Transition(2)
	mcl := c19MutClass(cs.Mut)
	if res.MutPanic != "" {
		c.Count("mutator_panicked_other_side_still_compared:"+mcl+"@"+mc.PanicSite(res.MutPanic), 1)
	}
	if res.MutEffect {
		c.Count("mut_effective:"+cs.Dir+":"+mcl, 1)
		c.Nontrivial("o|" + cs.Op + "|" + cs.Arg + "|" + cs.Mut + "|" + cs.Dir + "|" + cs.Inst.String() + "|" + c19PointsKey(cs.Choices))
	}
	if len(res.Vios) > 0 {
		c.Outcome(cs.Op + ":" + cs.Dir + ":violation")
	} else if res.MutEffect {
		c.Outcome(cs.Op + ":" + cs.Dir + ":independent")
	}
}

// c19Leaf is one outcome of step 1 (one RNG answer sequence).
type c19Leaf struct {
	Choices []vrt.Point
	Res     *c19Res
}

// c19Step1 executes step 1 of (inst, op, arg) under every sequence of RNG
// answers and reports each leaf; it returns the leaves.
func c19Step1(c *mc.Ctx, in *c19Inst, op *c19Op, arg string) (leaves []c19Leaf, complete bool) {
	cs := &c19Case{Inst: *in, Op: op.Name, Arg: arg}
	if op.Kill || op.Own {
		c.Mark(cs) // Kill: runs goroutines, a panic there kills the process; Own: step 2 of one argument can take seconds
	}
	if !op.Rand {
		res := c19Body(cs)
		c19Report(c, cs, res)
		return []c19Leaf{{nil, res}}, true
	}
	ex := &mc.Explorer{Ctx: c, NoCount: true, Opts: c19Opts(op, cs), Body: func() any { return c19Body(cs) }}
	ex.Check = func(x *mc.Execution) {
		l := c19Leaf{append([]vrt.Point{}, x.Exec.Points...), c19FromExecution(cs, x)}
		lc := *cs
		lc.Choices = l.Choices
		c19Report(c, &lc, l.Res)
		c.State(1)
		c.Count("rng_leaves", 1)
		if l.Res.Fatal != "" {
			ex.Stop()
		}
		leaves = append(leaves, l)
	}
	complete = ex.Explore()
	c.Count("rng_trees", 1)
	if !complete {
		c.Count("rng_trees_capped", 1)
	}
	return leaves, complete
}

// c19Explore: step 1, and for the ownership operations every mutator on either side.
func c19Explore(c *mc.Ctx, in *c19Inst, op *c19Op, arg string, lvl c19Level, step2 bool) {
	leaves, _ := c19Step1(c, in, op, arg)
	if !op.Own || !step2 {
		return
	}
	for _, l := range leaves {
		if l.Res.Fatal != "" || l.Res.NOuts == 0 {
			continue
		}
		for _, dir := range []string{"copy", "original"} {
			var muts []string
			if dir == "copy" {
				muts = c19MutNames(lvl, l.Res.OutN, l.Res.OutL, l.Res.OutAlign, l.Res.OutAlpha, l.Res.OutNames)
			} else {
				var names []string
				for _, r := range in.Rows {
					names = append(names, r.Name)
				}
				muts = c19MutNames(lvl, in.n(), max(in.L(), 0), !in.Bag, in.Alpha, names)
			}
			for _, m := range muts {
				if c.Expired() {
					return
				}
				cs := &c19Case{Inst: *in, Op: op.Name, Arg: arg, Mut: m, Dir: dir, Choices: l.Choices}
				if c19Exec(c, cs) == nil {
					return
				}
			}
		}
	}
}

// ---------------------------------------------------------------- helpers for arguments

func c19Ints(s string) []int {
	if s == "" {
		return nil
	}
	var out []int
	for _, f := range strings.Split(s, ",") {
		v, err := strconv.Atoi(f)
		if err != nil {
			panic("c19: bad argument " + s)
		}
		out = append(out, v)
	}
	return out
}

func c19Join(v ...int) string {
	s := make([]string, len(v))
	for i, x := range v {
		s[i] = strconv.Itoa(x)
	}
	return strings.Join(s, ",")
}

func c19B(v int) bool { return v != 0 }

// c19BoolArgs: all k-tuples over {0,1}.
func c19BoolArgs(k int) []string {
	var out []string
	for m := 0; m < 1<<k; m++ {
		v := make([]int, k)
		for i := range v {
			v[i] = (m >> i) & 1
		}
		out = append(out, c19Join(v...))
	}
	return out
}

// c19SiteLists: every sequence of sites (repeats allowed) of length 0..maxLen over [0,L).
func c19SiteLists(L, maxLen int) []string {
	out := []string{""}
	if L <= 0 {
		return out
	}
	prev := [][]int{{}}
	for k := 1; k <= maxLen; k++ {
		var cur [][]int
		for _, p := range prev {
			for s := 0; s < L; s++ {
				q := append(append([]int{}, p...), s)
				cur = append(cur, q)
				out = append(out, c19Join(q...))
			}
		}
		prev = cur
	}
	return out
}

// c19Windows: every (start,length) with 0<=start, 0<=length, start+length<=L.
func c19Windows(L int, minLen int) []string {
	var out []string
	for s := 0; s <= L; s++ {
		for l := minLen; s+l <= L; l++ {
			out = append(out, c19Join(s, l))
		}
	}
	return out
}

// ---------------------------------------------------------------- instance families

type c19Level struct {
	Thorough bool
	Full     bool // full argument lists and all cells (thorough tier, and the special instances in quick)
}

func c19Specials() []c19Inst {
	nt, aa := align.NUCLEOTIDS, align.AMINOACIDS
	return []c19Inst{
		{Alpha: nt, Rows: nil},
		{Bag: true, Alpha: nt, Rows: nil},
		{Alpha: nt, Rows: rows{{"a", ""}}},
		{Alpha: nt, Rows: rows{{"a", ""}, {"b", ""}}},
		{Alpha: nt, Rows: rows{{"a", "ATGTAA"}, {"b", "ATGAAC"}, {"c", "ATG--C"}}},
		{Alpha: nt, Rows: rows{{"a", "ATGTAA"}, {"b", "TTACAT"}, {"c", "atgtga"}}, Comments: []string{"first", "", "third row"}},
		{Bag: true, Alpha: nt, Rows: rows{{"c", "ATGAAATAA"}, {"a", "ATGTAA"}, {"b", "TTACAT"}}},
		{Alpha: aa, Rows: rows{{"a", "MKL"}, {"b", "M-L"}, {"c", "MQL"}}},
		{Alpha: aa, Rows: rows{{"a", "LFEQ"}, {"b", "LIPX"}}, Comments: []string{"c1", "c2"}},
		{Bag: true, Alpha: aa, Rows: rows{{"a", "MKL"}, {"b", "ML"}}},
		{Alpha: nt, Rows: rows{{"a", "Ac"}, {"B", "gT"}}, Comments: []string{"x", "y"}, Policy: align.IGNORE_NAME},
		{Alpha: nt, Rows: rows{{"a", "AC"}, {"a_0001", "AC"}}, Policy: align.IGNORE_SEQUENCE},
		{Alpha: nt, Rows: rows{{" x.y", "AC-"}, {"z;w ", "GTN"}}},
		{Alpha: align.UNKNOWN, Rows: rows{{"a", "A#"}, {"b", "-c"}}},
		{Alpha: nt, Rows: rows{{"s1", "ACGTACGTAC"}, {"s2", "AC-TNCGTAC"}, {"s3", "ACGTACG-AC"}, {"s4", "ttgTACGTAC"}}},
		{Alpha: nt, Rows: rows{{"a_long_sequence_name_1", "ACG"}, {"a_long_sequence_name_2", "A-G"}}},
		{Alpha: nt, Rows: rows{{"a", "AUGuaa.?*"}, {"b", "augUAANX-"}}},
		{Alpha: aa, Rows: rows{{"a", "MK*X.?bzJ"}, {"b", "mkOUBZ-xL"}}},
		// RNA: ORFs on both strands written with U / u and nothing a strand operation refuses
		{Alpha: nt, Rows: rows{{"a", "AUGUAA"}, {"b", "UUACAU"}, {"c", "auguga"}}},
		{Bag: true, Alpha: nt, Rows: rows{{"c", "AUGAAAUAA"}, {"a", "UUAUUUCAU"}, {"b", "auguuuuga"}}},
		// the form DiffWithFirst produces: '.' in rows other than the first
		{Alpha: nt, Rows: rows{{"a", "ACGT"}, {"b", ".C.T"}, {"c", "A..."}}},
		{Alpha: aa, Rows: rows{{"a", "MKLV"}, {"b", "..I."}, {"c", "...."}}},
		{Alpha: nt, Rows: rows{{"a", "A.GT"}, {"b", "....."[:4]}, {"c", "-.N*"}}},
		// containers built through the API whose alphabet was never detected
		{Alpha: align.UNKNOWN, Rows: rows{{"a", "ACGT"}, {"b", "AC-T"}}},
		{Alpha: align.UNKNOWN, Rows: rows{{"a", "MKLV"}, {"b", "MQ-V"}}},
		{Bag: true, Alpha: align.UNKNOWN, Rows: rows{{"a", "ACGT"}, {"b", "ACT"}}},
		{Bag: true, Alpha: align.UNKNOWN, Rows: rows{{"a", "MKLV"}, {"b", "MQ"}}},
		// alphabet set against the content
		{Alpha: aa, Rows: rows{{"a", "ACGT"}, {"b", "AC-T"}}},
		{Alpha: nt, Rows: rows{{"a", "MKLV"}, {"b", "MQ-V"}}},
		{Alpha: align.BOTH, Rows: rows{{"a", "ACGT"}, {"b", "AC-T"}}},
	}
}

const c19Letters = "Ac-N"

// c19Family enumerates one family of instances.
//
//	aln-nt / aln-aa : all alignments of n rows x L columns over {A,c,-,N}
//	bag-nt          : all sequence sets of n rows with lengths 1..2 each (ragged included)
func c19FamilyAln(alpha, n, L int, f func(in *c19Inst) bool) {
	forEachAlignment(c19Letters, n, L, func(seqs []string) bool {
		in := &c19Inst{Alpha: alpha, Rows: namedRows(seqs...)}
		return f(in)
	})
}

func c19FamilyBag(n int, f func(in *c19Inst) bool) {
	var strs []string
	forEachString(c19Letters, 1, 2, func(s []byte) bool { strs = append(strs, string(s)); return true })
	if n == 1 {
		for _, s := range strs {
			if !f(&c19Inst{Bag: true, Alpha: align.NUCLEOTIDS, Rows: namedRows(s)}) {
				return
			}
		}
		return
	}
	for _, s := range strs {
		for _, t := range strs {
			if !f(&c19Inst{Bag: true, Alpha: align.NUCLEOTIDS, Rows: namedRows(s, t)}) {
				return
			}
		}
	}
}

// ---------------------------------------------------------------- tasks

// c19RunInst runs every applicable operation with every argument on one instance.
//
//	part "q": step 1 of every operation (queries and copy producers)
//	part "o": the ownership operations with step 2
func c19RunInst(c *mc.Ctx, in *c19Inst, part string, heavy bool, lvl c19Level) {
	lvl.Full = lvl.Thorough || heavy
	_ = in.String() // cache the key before the instance is copied into cases
	for _, op := range c19OpList {
		if op.Own != (part == "o") {
			continue
		}
		if op.Heavy && !heavy {
			continue
		}
		if op.Aln && in.Bag {
			continue
		}
		if op.Applies != nil && !op.Applies(in) {
			continue
		}
		args := []string{""}
		if op.Args != nil {
			args = op.Args(in, lvl)
		}
		c.Mark(&c19Case{Inst: *in, Op: op.Name, Arg: "*"})
		for _, a := range args {
			if c.Expired() {
				return
			}
			c19Explore(c, in, op, a, lvl, true)
		}
	}
}

type c19Chunk struct {
	Name  string
	Part  string
	Heavy bool
	Each  func(f func(in *c19Inst) bool)
}

func c19Chunks(tier string) []c19Chunk {
	thorough := tier == "thorough"
	var out []c19Chunk
	add := func(name string, heavy bool, parts string, each func(f func(in *c19Inst) bool)) {
		for _, p := range strings.Split(parts, ",") {
			out = append(out, c19Chunk{Name: name, Part: p, Heavy: heavy, Each: each})
		}
	}
	// special instances: one task each and part
	for i, sp := range c19Specials() {
		sp := sp
		add(fmt.Sprintf("special%02d", i), true, "q,o", func(f func(in *c19Inst) bool) { f(&sp) })
	}
	// all alignments n<=2, L<=3 over {A,c,-,N}; split on a prefix of the cell string so that tasks have <= 64 (q) instances
	// quick tier, step 2: all alignments of <= 4 cells, and the 2x3 ones that use at most 2 distinct letters
	fewLetters := func(in *c19Inst) bool {
		if in.n()*max(in.L(), 0) <= 4 {
			return true
		}
		seen := map[byte]bool{}
		for _, r := range in.Rows {
			for i := 0; i < len(r.Seq); i++ {
				seen[r.Seq[i]] = true
			}
		}
		return len(seen) <= 2
	}
	alnChunks := func(fam string, alpha int, heavy bool, parts string, maxL int, prefLen int) {
		for n := 1; n <= 2; n++ {
			for L := 1; L <= maxL; L++ {
				n, L := n, L
				cells := n * L
				pl := 0
				if cells > 3 {
					pl = min(prefLen, cells-2)
				}
				var prefixes []string
				forEachString(c19Letters, pl, pl, func(s []byte) bool { prefixes = append(prefixes, string(s)); return true })
				for _, pf := range prefixes {
					pf := pf
					for _, part := range strings.Split(parts, ",") {
						part := part
						if part == "o" && !thorough && alpha != align.NUCLEOTIDS && cells > 4 {
							continue // quick, step 2, amino-acid typing: alignments of <= 4 cells only
						}
						add(fmt.Sprintf("%s-%dx%d#%s", fam, n, L, pf), heavy, part, func(f func(in *c19Inst) bool) {
							forEachStringLen(c19Letters, cells, []byte(pf), func(s []byte) bool {
								seqs := make([]string, n)
								for i := range seqs {
									seqs[i] = string(s[i*L : (i+1)*L])
								}
								in := &c19Inst{Alpha: alpha, Rows: namedRows(seqs...)}
								if part == "o" && (!thorough || alpha != align.NUCLEOTIDS) && !fewLetters(in) {
									return true
								}
								return f(in)
							})
						})
					}
				}
			}
		}
	}
	if thorough {
		alnChunks("aln-nt", align.NUCLEOTIDS, true, "q,o", 3, 4)
		alnChunks("aln-aa", align.AMINOACIDS, true, "q,o", 3, 4)
	} else {
		alnChunks("aln-nt", align.NUCLEOTIDS, false, "q,o", 3, 3)
		alnChunks("aln-aa", align.AMINOACIDS, false, "q,o", 2, 3)
	}
	for n := 1; n <= 2; n++ {
		n := n
		add(fmt.Sprintf("bag-nt-%d", n), thorough, "q,o", func(f func(in *c19Inst) bool) { c19FamilyBag(n, f) })
	}
	return out
}

func c19Tasks(tier string) []mc.Task {
	lvl := c19Level{Thorough: tier == "thorough"}
	var ts []mc.Task
	for _, ch := range c19Chunks(tier) {
		ch := ch
		name := ch.Name
		if !strings.Contains(name, "#") {
			name += "#"
		}
		ts = append(ts, mc.Task{Name: name + "/" + ch.Part, Run: func(c *mc.Ctx) {
			vrt.CatchExitAlways.Store(true)
			k := 0
			ch.Each(func(in *c19Inst) bool {
				c19RunInst(c, in, ch.Part, ch.Heavy, lvl)
				if k == 0 {
					c.Sample(map[string]any{"task": ch.Name + "/" + ch.Part, "first_input": in.String()})
				}
				k++
				c.Count("instances:"+ch.Part, 1)
				return !c.Expired()
			})
		}})
	}
	return append(ts, c19ManyTasks()...)
}

func c19OpNames(own bool) string {
	var s []string
	for _, o := range c19OpList {
		if o.Own == own {
			s = append(s, o.Name)
		}
	}
	return strings.Join(s, ", ")
}

func init() {
	mc.Register(&mc.Prop{
		ID:    "C19",
		Level: "model_checking",
		Rule: "two-step histories on real objects. INPUTS: (F1) ALL alignments of n<=2 rows x L<=3 columns over {A,c,-,N} typed as nucleotides; (F2) the same rows typed as amino acids; (F3) ALL sequence sets of <=2 rows of lengths 1..2 (ragged included); (S) " + strconv.Itoa(len(c19Specials())) + " special containers (empty alignment/set, rows of length 0, two 3x6 coding alignments with ATG...stop on both strands, a ragged coding set, the same in RNA (U / u), mixed case, comments, non-default duplicate-name policies, auto-renamed / odd / long names, unknown alphabet, U . ? * X and other odd residues, 3x3 and 2x4 protein alignments, a ragged protein set, a 4x10 alignment). " +
			"STEP 1 (on F1, F2, F3, S; in quick F2 is restricted to L<=2), for EVERY operation of the list below with ALL valid small arguments - every site, every (start,length) window, every site list of length <=2 (<=3 in thorough and on S), every option combination, every assignment of the columns to 2..3 parts, 7 nucleotide distance models x remove-gaps x gap-mutation mode x unit/non-unit weights, protein ML distance (LG in quick on F2, all 7 matrices in thorough and on S) x {model, data} frequencies x remove-gaps, pairwise alignment of every ordered row pair with both algorithms, Phase with no / nucleotide / protein reference x translate x reverse x cut-end (protein reference with translation only); on the larger containers of S positions are taken in the first 4 (site lists) / 6 (windows) columns - and, for the randomised ones (BuildBootstrap with fractions 1, 0.5 and 0; RandSubAlign with every length x consecutive/scattered; Sample, SampleSeqBag with every size; Rarefy, RarefySeqBag with 1 and 2 draws from counts 2,1,3,1; all on containers of L<=6, n<=4, with one fraction / one scattered length when L>3), under EVERY sequence of RNG answers: the private state of the container the operation was called on (rows, residues, names, comments, name index, cached length, alphabet, duplicate-name policy, identity of every row buffer and row object) is bit-for-bit equal before and after; the same for every other container passed as an argument (reference ORFs of Phase, nucleotide set of CodonAlign, operand of Identical). " +
			"STEP 2, for the operations named by the ownership clause (" + c19OpNames(true) + "; Sequence.Clone observed through a one-row view of the clone's buffer): no row object and no byte of row-buffer capacity of the result overlaps the original's; then EVERY in-place mutator of the list (cell writes through SetSequenceChar / ReplaceChar and through each of the 9 accessors that expose the internal slice, row Reverse/Complement/SetName, case change, reverse complement, 5 masking variants + every mask window, MaskUnique, MaskOccurences, renaming x7, residue replacement, Translate, Sort, Clear, AddSequence, Deduplicate, FilterLength, alphabet and policy setters, TrimSequences, Concat, Append, DiffWithFirst, ReplaceMatchChars, site/sequence removal, Compress) applied to the result leaves the original's state equal, and applied to the original leaves the result's state equal. Thorough: on F1, F3, S and on the alignments of F2 that have <=4 cells or use at most 2 distinct letters, with cell/row/column mutators at every cell/row/column. Quick: on S (every cell), on F3, on all alignments of F1 with <=4 cells, on those of F2 with L<=2, and on the 2x3 alignments of F1 that use at most 2 distinct letters; SetSequenceChar at every cell, the other cell/row/column mutators at the first and last cell/row and the last column. " +
			"MANY ROWS: Clone, Clone of a Clone, CloneSeqBag, SubAlign(all) and SelectSites(all) on alignments of " + fmt.Sprint(c19ManyCounts) + " rows x 3 columns: input unchanged, content equal, no row object and no byte of row buffer shared (sweep over the sorted buffers), and writing the residues and the name of the first row, the last 9 rows and the rows around n/8, n/4, n/3, n/2, 2n/3, 3n/4 of either side leaves the other side's state equal. " +
			"STEP-1 operations (draw/biojs on S only in quick): " + c19OpNames(false) + ". transitions = real operation calls; states = RNG leaves; distinct_nontrivial = distinct step-1 cases where the operation succeeded + distinct step-2 histories whose mutator really changed its target.",
		Assumptions: []string{
			"'bit-for-bit unchanged' is decided on the complete private state of seqbag/align dumped by an overlay-added file of package align (VerifDump) plus the row comments",
			"an operation that panics or reports an error is not a counterexample to this property by itself (other properties own those clauses); its input is still compared",
			"the ownership clause ('mutating the copy never changes the original and vice versa') is applied to Clone, CloneSeqBag, SubAlign, SelectSites, RandSubAlign, Split and - being in the statement's list of copy-producing operations, which the quantifier follows by in-place mutations of the returned object - Transpose, Consensus and BuildBootstrap (also on rows without any site); for all other producers of new objects only 'input unchanged' is checked and buffer sharing is merely counted",
			"arguments are valid ones (sites inside the alignment, windows inside it, existing names): behaviour on invalid arguments belongs to C04/C14",
			"rand.Intn(n) can return every value of [0,n); rand.Float64 answers for Rarefy are the representatives used by C10",
		},
		Tasks: c19Tasks,
		Replay: func(c *mc.Ctx, payload json.RawMessage) {
			var cs c19Case
			if err := json.Unmarshal(payload, &cs); err != nil {
				c.Fatal("bad payload: %v", err)
				return
			}
			vrt.CatchExitAlways.Store(true)
			if strings.HasPrefix(cs.Op, "many-rows:") {
				n, _ := strconv.Atoi(cs.Arg)
				c19ManyProbe(c, n, strings.TrimPrefix(cs.Op, "many-rows:"))
				return
			}
			if cs.Arg == "*" { // a marked (instance, operation): all arguments
				op := c19OpByName[cs.Op]
				if op == nil {
					c.Fatal("unknown operation %q", cs.Op)
					return
				}
				args := []string{""}
				if op.Args != nil {
					args = op.Args(&cs.Inst, c19Level{Thorough: true, Full: true})
				}
				for _, a := range args {
					c19Explore(c, &cs.Inst, op, a, c19Level{Thorough: true, Full: true}, true)
				}
				return
			}
			c19Exec(c, &cs)
		},
		Vacuity: func(tier string, t *mc.Totals) error {
			okOps, effCopy, effOrig := 0, 0, 0
			for k, v := range t.Extra {
				if v <= 0 {
					continue
				}
				switch {
				case strings.HasPrefix(k, "op_ok:"):
					okOps++
				case strings.HasPrefix(k, "mut_effective:copy:"):
					effCopy++
				case strings.HasPrefix(k, "mut_effective:original:"):
					effOrig++
				}
			}
			var missing []string
			for _, o := range c19OpList {
				if t.Extra["op_ok:"+o.Name] == 0 {
					missing = append(missing, o.Name)
				}
			}
			sort.Strings(missing)
			if len(missing) > 0 {
				return fmt.Errorf("operations that never succeeded on any input: %v", missing)
			}
			if t.Evaluations < 200000 || t.Nontrivial < 100000 {
				return fmt.Errorf("too little explored: evaluations=%d nontrivial=%d", t.Evaluations, t.Nontrivial)
			}
			if effCopy < 30 || effOrig < 30 {
				return fmt.Errorf("too few effective mutator classes: %d on copies, %d on originals", effCopy, effOrig)
			}
			if t.Extra["rng_leaves"] < 5000 {
				return fmt.Errorf("too few RNG leaves: %d", t.Extra["rng_leaves"])
			}
			return nil
		},
	})
}
