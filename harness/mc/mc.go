// Package mc is the exploration engine shared by all property drivers:
// task sharding over worker subprocesses, violation confirmation by replay,
// known-finding matching and evidence writing.  The choice-tree explorer
// (deviation-bounded DFS over environment answers / schedules) is in
// explore.go, the explicit-state BFS in bfs.go.
package mc

import (
	"encoding/json"
	"fmt"
	"hash/fnv"
	"os"
	"runtime/debug"
	"sort"
	"strings"
	"time"

	"github.com/evolbioinfo/goalign/verifrt/vrt"
)

// Task is one independently runnable slice of a property's input space.
// Tasks of a property partition the space: no case is enumerated by two tasks.
type Task struct {
	Name string
	Run  func(c *Ctx)
}

// Prop is one property driver.
type Prop struct {
	ID          string
	Level       string // exploration | model_checking
	Rule        string
	Assumptions []string
	// Tasks enumerates the work of a tier.
	Tasks func(tier string) []Task
	// Replay re-executes exactly one case from its replay payload and reports
	// through c.Violation exactly as the enumeration would.
	Replay func(c *Ctx, payload json.RawMessage)
	// Vacuity returns a non-nil error if the totals show the run was vacuous.
	Vacuity func(tier string, t *Totals) error
	// Post runs in the master after all tasks (e.g. free-running -race pass).
	Post func(m *Master)
}

var registry = map[string]*Prop{}

func Register(p *Prop) {
	registry[p.ID] = p
	for _, f := range afterRegister {
		f(p)
	}
}

var afterRegister []func(*Prop)

// AfterRegister registers a function applied to every property, those registered already and those to come
// (package initialisation order is file order: the caller cannot know which).
func AfterRegister(f func(*Prop)) {
	afterRegister = append(afterRegister, f)
	for _, p := range registry {
		f(p)
	}
}

// Violation is one counterexample.  Sig classifies it (oracle clause +
// operation + failure kind [+ input when the class is input specific]); it is
// what known_findings.json is matched against.
type Violation struct {
	Sig    string          `json:"sig"`
	Desc   string          `json:"desc"`
	Replay json.RawMessage `json:"replay"`
	Size   int             `json:"size"` // smaller = simpler counterexample
	// Precise marks a report that comes from a precise external detector (the
	// Go race detector in the free-running pass) and cannot be replayed
	// deterministically; it is believed without the 5x replay.
	Precise bool `json:"precise,omitempty"`
}

// TaskResult is what a worker sends back for one task.
type TaskResult struct {
	Task        string            `json:"task"`
	Evaluations int64             `json:"evaluations"`
	Nontrivial  int64             `json:"nontrivial"`
	States      int64             `json:"states"`
	Transitions int64             `json:"transitions"`
	Outcomes    []string          `json:"outcomes,omitempty"`
	OutcomesN   int64             `json:"outcomes_n"`
	Samples     []json.RawMessage `json:"samples,omitempty"`
	Violations  []Violation       `json:"violations,omitempty"`
	VioCounts   map[string]int64  `json:"vio_counts,omitempty"`
	Skipped     map[string]int64  `json:"skipped,omitempty"`
	Extra       map[string]int64  `json:"extra,omitempty"`
	Flags       map[string]bool   `json:"flags,omitempty"`
	Capped      bool              `json:"capped"`
	Fatal       string            `json:"fatal,omitempty"` // harness failure (exit 2)
	Notes       []string          `json:"notes,omitempty"`
}

// Ctx is handed to a task / replay.
type Ctx struct {
	Tier     string
	Deadline time.Time
	res      TaskResult
	nt       map[uint64]struct{}
	oc       map[string]struct{}
	mark     *os.File
	evalTick int64
	auto     []string
	expired  bool
	replay   bool
}

func newCtx(tier string, deadline time.Time, mark *os.File) *Ctx {
	return &Ctx{Tier: tier, Deadline: deadline, mark: mark,
		nt: map[uint64]struct{}{}, oc: map[string]struct{}{},
		res: TaskResult{VioCounts: map[string]int64{}, Skipped: map[string]int64{}, Extra: map[string]int64{}, Flags: map[string]bool{}}}
}

func (c *Ctx) Thorough() bool { return c.Tier == "thorough" }

// Eval counts one complete execution of implementation code checked by an oracle.
func (c *Ctx) Eval() { c.res.Evaluations++ }

func (c *Ctx) EvalN(n int64) { c.res.Evaluations += n }

// State / Transition count choice-tree nodes or BFS states and edges.
func (c *Ctx) State(n int64)      { c.res.States += n }
func (c *Ctx) Transition(n int64) { c.res.Transitions += n }

func h64(s string) uint64 {
	h := fnv.New64a()
	h.Write([]byte(s))
	return h.Sum64()
}

// Nontrivial records a case that is non-trivial by the driver's rule; distinct
// keys are counted (64-bit FNV of the key).
func (c *Ctx) Nontrivial(key string) {
	k := h64(key)
	if _, ok := c.nt[k]; !ok {
		c.nt[k] = struct{}{}
		c.res.Nontrivial++
		if len(c.auto) < 2 && len(key) < 600 {
			c.auto = append(c.auto, key) // fallback sample: the driver's own description of a non-trivial case
		}
	}
}

// Outcome records a distinct observed outcome class (kept verbatim up to a cap).
func (c *Ctx) Outcome(key string) {
	if _, ok := c.oc[key]; !ok {
		c.res.OutcomesN++
		if len(c.oc) < 2000 {
			c.oc[key] = struct{}{}
		}
	}
}

func (c *Ctx) Sample(v any) {
	if len(c.res.Samples) < 3 {
		b, _ := json.Marshal(v)
		c.res.Samples = append(c.res.Samples, b)
	}
}

func (c *Ctx) Skip(reason string)        { c.res.Skipped[reason]++ }
func (c *Ctx) Count(key string, n int64) { c.res.Extra[key] += n }
func (c *Ctx) Flag(key string)           { c.res.Flags[key] = true }
func (c *Ctx) Note(s string) {
	if len(c.res.Notes) < 20 {
		c.res.Notes = append(c.res.Notes, s)
	}
}

// Fatal reports a defect of the harness itself (never a VIOLATION; exit 2).
func (c *Ctx) Fatal(format string, a ...any) {
	if c.res.Fatal == "" {
		c.res.Fatal = fmt.Sprintf(format, a...)
	}
}

// Violation reports a counterexample.  Per signature the smallest few are kept.
func (c *Ctx) Violation(sig, desc string, replay any) {
	c.res.VioCounts[sig]++
	b, err := json.Marshal(replay)
	if err != nil {
		c.Fatal("cannot marshal replay for %s: %v", sig, err)
		return
	}
	v := Violation{Sig: sig, Desc: desc, Replay: b, Size: len(b)}
	n, worst := 0, -1
	for i := range c.res.Violations {
		if c.res.Violations[i].Sig == sig {
			n++
			if worst < 0 || c.res.Violations[i].Size > c.res.Violations[worst].Size {
				worst = i
			}
		}
	}
	if n < 2 {
		c.res.Violations = append(c.res.Violations, v)
	} else if v.Size < c.res.Violations[worst].Size {
		c.res.Violations[worst] = v
	}
}

// Expired tells a task to stop enumerating (time cap reached).  The run is then
// reported with exhaustive:false; it is never a verdict.
func (c *Ctx) Expired() bool {
	if c.expired {
		return true
	}
	c.evalTick++
	if c.evalTick&0x3ff == 0 && time.Now().After(c.Deadline) {
		c.expired = true
		c.res.Capped = true
	}
	return c.expired
}

// Mark records the case about to be executed so that, should the worker
// process die (fatal runtime error, memory exhaustion, runaway loop killed by
// the watchdog), the master can name the input.
func (c *Ctx) Mark(replay any) {
	if c.mark == nil {
		return
	}
	b, _ := json.Marshal(replay)
	b = append(b, '\n')
	c.mark.WriteAt(b, 0)
	c.mark.Truncate(int64(len(b)))
}

// Guard runs f and converts a panic into (true, message).  The message ends
// with " @<function> <file:line>" of the innermost goalign frame.
func Guard(f func()) (panicked bool, msg string) {
	p, m, _ := GuardExit(f)
	return p, m
}

// GuardReturns is Guard for a call that may never return (a numerical loop whose exit test can no
// longer become true): f runs in its own goroutine and is given d of wall clock.  d must be many orders
// of magnitude above the cost of the call (a function of microseconds gets tens of seconds), so that
// returned=false means "does not return", not "was slow"; the goroutine is left behind (it cannot be
// stopped) and ends with the worker process.
func GuardReturns(f func(), d time.Duration) (returned, panicked bool, msg string) {
	type res struct {
		p bool
		m string
	}
	done := make(chan res, 1)
	go func() {
		p, m := Guard(f)
		done <- res{p, m}
	}()
	t := time.NewTimer(d)
	defer t.Stop()
	select {
	case r := <-done:
		return true, r.p, r.m
	case <-t.C:
		return false, false, ""
	}
}

// GuardExit is Guard that additionally recognises the sentinel raised by the
// instrumented os.Exit (io.ExitWithMessage inside library code): exited=true
// means "the library reported an explicit error and asked to exit".
func GuardExit(f func()) (panicked bool, msg string, exited bool) {
	defer func() {
		if r := recover(); r != nil {
			if _, ok := r.(vrt.ExitPanic); ok {
				exited = true
				return
			}
			panicked = true
			msg = fmt.Sprint(r) + " @" + repoFrame(string(debug.Stack()))
		}
	}()
	f()
	return
}

// repoFrame extracts "<func> <file:line>" of the innermost goalign frame of a stack dump.
func repoFrame(st string) string {
	lines := strings.Split(st, "\n")
	for i := 0; i+1 < len(lines); i++ {
		l := lines[i]
		if strings.HasPrefix(l, "\t") || !strings.Contains(l, "evolbioinfo/goalign/") || strings.Contains(l, "verifrt") {
			continue
		}
		fn := l
		if j := strings.LastIndex(fn, "("); j > 0 {
			fn = fn[:j]
		}
		if j := strings.LastIndex(fn, "/"); j >= 0 {
			fn = fn[j+1:]
		}
		loc := strings.TrimSpace(lines[i+1])
		if j := strings.Index(loc, " +0x"); j > 0 {
			loc = loc[:j]
		}
		if j := strings.LastIndex(loc, "/"); j >= 0 {
			loc = loc[j+1:]
		}
		return fn + " " + loc
	}
	return "? ?"
}

// PanicSite returns the function in which a Guard-ed panic was raised (no line
// number, so that signatures survive unrelated edits).
func PanicSite(msg string) string {
	i := strings.LastIndex(msg, " @")
	if i < 0 {
		return "?"
	}
	s := msg[i+2:]
	if j := strings.Index(s, " "); j > 0 {
		s = s[:j]
	}
	return s
}

// Totals is the merge of all task results.
type Totals struct {
	TaskResult
	Tasks      int
	TasksDone  int
	OutcomeSet map[string]struct{}
	Died       []string
}

func (t *Totals) merge(r *TaskResult) {
	t.Evaluations += r.Evaluations
	t.Nontrivial += r.Nontrivial
	t.States += r.States
	t.Transitions += r.Transitions
	for _, o := range r.Outcomes {
		t.OutcomeSet[o] = struct{}{}
	}
	t.OutcomesN += r.OutcomesN
	for _, s := range r.Samples {
		if len(t.Samples) < 8 {
			t.Samples = append(t.Samples, s)
		}
	}
	t.Violations = append(t.Violations, r.Violations...)
	for k, v := range r.VioCounts {
		t.VioCounts[k] += v
	}
	for k, v := range r.Skipped {
		t.Skipped[k] += v
	}
	for k, v := range r.Extra {
		t.Extra[k] += v
	}
	for k, v := range r.Flags {
		if v {
			t.Flags[k] = true
		}
	}
	if r.Capped {
		t.Capped = true
	}
	if r.Fatal != "" && t.Fatal == "" {
		t.Fatal = r.Task + ": " + r.Fatal
	}
	for _, n := range r.Notes {
		if len(t.Notes) < 40 {
			t.Notes = append(t.Notes, n)
		}
	}
	t.TasksDone++
}

func sortedKeys[V any](m map[string]V) []string {
	ks := make([]string, 0, len(m))
	for k := range m {
		ks = append(ks, k)
	}
	sort.Strings(ks)
	return ks
}
