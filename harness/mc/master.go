package mc

import (
	"bufio"
	"bytes"
	"encoding/json"
	"flag"
	"fmt"
	"io"
	"os"
	"os/exec"
	"path/filepath"
	"runtime"
	"runtime/pprof"
	"sort"
	"strconv"
	"strings"
	"sync"
	"time"
)

// Master is the coordinating process of one check run.
type Master struct {
	Prop     *Prop
	Tier     string
	Seed     int64
	Deadline time.Time
	Tot      *Totals
	Dir      string // /verif
	Scratch  string // scratch dir of this run (removed by ./check)
	Repo     string
	start    time.Time
	jobs     int
}

type knownFinding struct {
	Property string `json:"property"`
	Status   string `json:"status"` // known | fixed
	Sig      string `json:"sig,omitempty"`
	Commit   string `json:"commit,omitempty"`
	Witness  string `json:"witness,omitempty"`
	What     string `json:"what"`
}

type knownFile struct {
	Findings []knownFinding `json:"findings"`
}

// ScratchDir, RepoDir and VerifDir are the -scratch, -repo and -dir arguments
// (available to drivers in master and worker processes alike).
var ScratchDir, RepoDir, VerifDir string

// Main is the entry point of the vcheck binary.
func Main() {
	var (
		propID   = flag.String("prop", "", "property id")
		tier     = flag.String("tier", "quick", "quick|thorough")
		dir      = flag.String("dir", "/verif", "verif directory")
		scratch  = flag.String("scratch", "", "scratch directory")
		repo     = flag.String("repo", "/repo", "repository under test")
		worker   = flag.Bool("worker", false, "internal: worker mode")
		replay1  = flag.String("replay-payload", "", "internal: run one replay payload file and print the result")
		replay   = flag.String("replay", "", "replay file written by a previous violation")
		mark     = flag.String("mark", "", "internal: mark file")
		deadline = flag.Int64("deadline", 0, "internal: unix deadline")
		budget   = flag.Int("budget", 0, "seconds of exploration before the run stops with exhaustive:false (0 = tier default)")
		jobs     = flag.Int("j", 0, "worker processes (default: number of CPUs)")
		list     = flag.Bool("list", false, "list properties")
	)
	flag.Parse()
	if *list {
		for _, k := range sortedKeys(registry) {
			fmt.Println(k)
		}
		return
	}
	ScratchDir, RepoDir, VerifDir = *scratch, *repo, *dir
	p := registry[*propID]
	if p == nil {
		fmt.Fprintf(os.Stderr, "unknown property %q\n", *propID)
		os.Exit(2)
	}
	if *worker {
		workerLoop(p, *tier, *mark, time.Unix(*deadline, 0))
		return
	}
	if *replay1 != "" {
		runReplayPayload(p, *tier, *replay1)
		return
	}
	seed, _ := strconv.ParseInt(os.Getenv("VERIF_SEED"), 10, 64)
	if *budget == 0 {
		*budget = 75
		if *tier == "thorough" {
			*budget = 540
		}
		if b, err := strconv.Atoi(os.Getenv("VERIF_BUDGET")); err == nil && b > 0 {
			*budget = b
		}
	}
	if *jobs == 0 {
		*jobs = runtime.NumCPU()
	}
	m := &Master{Prop: p, Tier: *tier, Seed: seed, Dir: *dir, Scratch: *scratch, Repo: *repo, start: time.Now(), jobs: *jobs,
		Deadline: time.Now().Add(time.Duration(*budget) * time.Second)}
	if m.Scratch == "" {
		d, err := os.MkdirTemp("", "verif-run-")
		if err != nil {
			fmt.Fprintln(os.Stderr, err)
			os.Exit(2)
		}
		m.Scratch = d
		defer os.RemoveAll(d)
	}
	if *replay != "" {
		os.Exit(m.replayFile(*replay))
	}
	os.Exit(m.run())
}

func workerLoop(p *Prop, tier, markPath string, deadline time.Time) {
	var mark *os.File
	if markPath != "" {
		mark, _ = os.OpenFile(markPath, os.O_CREATE|os.O_RDWR, 0o644)
	}
	tasks := p.Tasks(tier)
	if pf := os.Getenv("VERIF_PROFILE"); pf != "" { // development aid: CPU profile of each worker
		if f, err := os.Create(pf + "." + os.Getenv("VERIF_WORKER_ID")); err == nil {
			pprof.StartCPUProfile(f)
			defer pprof.StopCPUProfile()
		}
	}
	in := bufio.NewScanner(os.Stdin)
	out := bufio.NewWriterSize(os.Stdout, 1<<20)
	for in.Scan() {
		idx, err := strconv.Atoi(strings.TrimSpace(in.Text()))
		if err != nil || idx < 0 || idx >= len(tasks) {
			fmt.Fprintf(os.Stderr, "worker: bad task index %q\n", in.Text())
			os.Exit(3)
		}
		c := newCtx(tier, deadline, mark)
		c.res.Task = tasks[idx].Name
		if time.Now().After(deadline) {
			c.res.Capped = true
			c.Count("tasks_not_started", 1)
		} else {
			if pn, msg := Guard(func() { tasks[idx].Run(c) }); pn {
				c.Fatal("task %s panicked outside a guarded call: %s", tasks[idx].Name, msg)
			}
		}
		for k := range c.oc {
			c.res.Outcomes = append(c.res.Outcomes, k)
		}
		if len(c.res.Samples) == 0 {
			for _, k := range c.auto {
				b, _ := json.Marshal(map[string]string{"nontrivial_case": k})
				c.res.Samples = append(c.res.Samples, b)
			}
		}
		b, _ := json.Marshal(&c.res)
		out.Write(b)
		out.WriteByte('\n')
		out.Flush()
	}
}

func runReplayPayload(p *Prop, tier, file string) {
	b, err := os.ReadFile(file)
	if err != nil {
		fmt.Fprintln(os.Stderr, err)
		os.Exit(3)
	}
	c := newCtx(tier, time.Now().Add(10*time.Minute), nil)
	c.replay = true
	c.res.Task = "replay"
	if p.Replay == nil {
		c.Fatal("property has no replay function")
	} else if pn, msg := Guard(func() { p.Replay(c, b) }); pn {
		c.Fatal("replay panicked outside a guarded call: %s", msg)
	}
	out, _ := json.Marshal(&c.res)
	os.Stdout.Write(out)
	os.Stdout.Write([]byte("\n"))
}

type workerProc struct {
	id    int
	cmd   *exec.Cmd
	stdin io.WriteCloser
	out   *bufio.Reader
	mark  string
}

func (m *Master) spawn(id int) (*workerProc, error) {
	self, _ := os.Executable()
	w := &workerProc{id: id, mark: filepath.Join(m.Scratch, fmt.Sprintf("mark.%d", id))}
	os.Remove(w.mark)
	w.cmd = exec.Command(self, "-worker", "-prop", m.Prop.ID, "-tier", m.Tier, "-mark", w.mark,
		"-deadline", strconv.FormatInt(m.Deadline.Unix(), 10), "-dir", m.Dir, "-scratch", m.Scratch, "-repo", m.Repo)
	w.cmd.Env = append(os.Environ(), "GOMAXPROCS=2", "VERIF_WORKER_ID="+strconv.Itoa(id), "GOTRACEBACK=single")
	w.cmd.Stderr = &tailBuf{max: 8192}
	var err error
	if w.stdin, err = w.cmd.StdinPipe(); err != nil {
		return nil, err
	}
	so, err := w.cmd.StdoutPipe()
	if err != nil {
		return nil, err
	}
	w.out = bufio.NewReaderSize(so, 1<<20)
	if err = w.cmd.Start(); err != nil {
		return nil, err
	}
	return w, nil
}

type tailBuf struct {
	mu  sync.Mutex
	buf []byte
	max int
}

func (t *tailBuf) Write(p []byte) (int, error) {
	t.mu.Lock()
	defer t.mu.Unlock()
	t.buf = append(t.buf, p...)
	if len(t.buf) > 2*t.max {
		// keep head and tail
		t.buf = append(t.buf[:t.max:t.max], t.buf[len(t.buf)-t.max:]...)
	}
	return len(p), nil
}
func (t *tailBuf) String() string { t.mu.Lock(); defer t.mu.Unlock(); return string(t.buf) }

// memLimit wraps the worker in a shell that sets ulimit -v when the driver asks.
var WorkerVMemKB = 0

func (m *Master) run() int {
	p := m.Prop
	tasks := p.Tasks(m.Tier)
	m.Tot = &Totals{Tasks: len(tasks), OutcomeSet: map[string]struct{}{},
		TaskResult: TaskResult{VioCounts: map[string]int64{}, Skipped: map[string]int64{}, Extra: map[string]int64{}, Flags: map[string]bool{}}}
	order := make([]int, len(tasks))
	for i := range order {
		order[i] = i
	}
	if only := os.Getenv("VERIF_ONLY"); only != "" { // development aid: only the tasks whose name contains this text
		var keep []int
		for _, i := range order {
			if strings.Contains(tasks[i].Name, only) {
				keep = append(keep, i)
			}
		}
		order = keep
	}
	if m.Seed != 0 { // VERIF_SEED only permutes the order in which tasks are handed out
		s := uint64(m.Seed)*6364136223846793005 + 1442695040888963407
		for i := len(order) - 1; i > 0; i-- {
			s = s*6364136223846793005 + 1442695040888963407
			j := int((s >> 33) % uint64(i+1))
			order[i], order[j] = order[j], order[i]
		}
	}
	var mu sync.Mutex
	next := 0
	var wg sync.WaitGroup
	nw := m.jobs
	if nw > len(tasks) {
		nw = len(tasks)
	}
	hardStop := m.Deadline.Add(90 * time.Second)
	for wi := 0; wi < nw; wi++ {
		wg.Add(1)
		go func(wi int) {
			defer wg.Done()
			var w *workerProc
			defer func() {
				if w != nil {
					w.stdin.Close()
					w.cmd.Wait()
				}
			}()
			for {
				mu.Lock()
				if next >= len(order) {
					mu.Unlock()
					return
				}
				ti := order[next]
				next++
				mu.Unlock()
				if w == nil {
					var err error
					if w, err = m.spawn(wi); err != nil {
						mu.Lock()
						m.Tot.Fatal = "cannot spawn worker: " + err.Error()
						mu.Unlock()
						return
					}
				}
				fmt.Fprintf(w.stdin, "%d\n", ti)
				t0 := time.Now()
				res, died := m.await(w, hardStop)
				mu.Lock()
				if f := os.Getenv("VERIF_TASKTIMES"); f != "" { // tuning aid: wall time per task
					if fh, err := os.OpenFile(f, os.O_APPEND|os.O_CREATE|os.O_WRONLY, 0o644); err == nil {
						ev := int64(0)
						if res != nil {
							ev = res.Evaluations
						}
						fmt.Fprintf(fh, "%.1f\t%d\t%s\n", time.Since(t0).Seconds(), ev, tasks[ti].Name)
						fh.Close()
					}
				}
				if died != "" {
					m.workerDied(tasks[ti].Name, w, died)
					w = nil
				} else {
					m.Tot.merge(res)
				}
				mu.Unlock()
			}
		}(wi)
	}
	wg.Wait()
	if p.Post != nil && m.Tot.Fatal == "" {
		p.Post(m)
	}
	return m.finish()
}

// await waits for one task result; a worker that dies, or whose marked case
// does not change for 120 s, or that outlives the hard stop, is killed.
func (m *Master) await(w *workerProc, hardStop time.Time) (*TaskResult, string) {
	type rd struct {
		line []byte
		err  error
	}
	ch := make(chan rd, 1)
	go func() {
		l, err := w.out.ReadBytes('\n')
		ch <- rd{l, err}
	}()
	lastMark, lastChange := "", time.Now()
	tick := time.NewTicker(3 * time.Second)
	defer tick.Stop()
	for {
		select {
		case r := <-ch:
			if r.err != nil {
				w.cmd.Wait()
				return nil, "died: " + tail(w.cmd.Stderr.(*tailBuf).String(), 1500)
			}
			var res TaskResult
			if err := json.Unmarshal(r.line, &res); err != nil {
				w.cmd.Process.Kill()
				w.cmd.Wait()
				return nil, "garbled: " + err.Error()
			}
			return &res, ""
		case <-tick.C:
			b, _ := os.ReadFile(w.mark)
			if s := string(b); s != lastMark {
				lastMark, lastChange = s, time.Now()
			} else if lastMark != "" && time.Since(lastChange) > 120*time.Second {
				w.cmd.Process.Kill()
				w.cmd.Wait()
				return nil, "hang: marked case did not finish within 120 s"
			}
			if time.Now().After(hardStop) {
				w.cmd.Process.Kill()
				w.cmd.Wait()
				return nil, "timeout"
			}
		}
	}
}

func tail(s string, n int) string {
	if len(s) > n {
		return s[:n/2] + "\n...\n" + s[len(s)-n/2:]
	}
	return s
}

func (m *Master) workerDied(task string, w *workerProc, why string) {
	m.Tot.TasksDone++
	if why == "timeout" {
		m.Tot.Capped = true
		m.Tot.Extra["tasks_killed_at_hard_stop"]++
		return
	}
	b, _ := os.ReadFile(w.mark)
	b = bytes.TrimSpace(b)
	if len(b) == 0 || !json.Valid(b) {
		if m.Tot.Fatal == "" {
			m.Tot.Fatal = fmt.Sprintf("worker running task %s %s (no marked case)", task, why)
		}
		return
	}
	kind := "process-died"
	if strings.HasPrefix(why, "hang") {
		kind = "process-hung"
	}
	first := why
	for _, l := range strings.Split(why, "\n") {
		if strings.HasPrefix(l, "fatal error:") || strings.HasPrefix(l, "panic:") {
			first = l
			break
		}
	}
	sig := kind + "/" + taskClass(task)
	m.Tot.VioCounts[sig]++
	m.Tot.Violations = append(m.Tot.Violations, Violation{Sig: sig, Desc: first + " on case " + string(b), Replay: append([]byte{}, b...), Size: len(b)})
	m.Tot.Died = append(m.Tot.Died, task)
}

func taskClass(task string) string {
	if i := strings.IndexAny(task, "#"); i >= 0 {
		return task[:i]
	}
	return task
}

// AddViolation lets a Post hook report a violation found in the master process.
func (m *Master) AddViolation(v Violation) {
	if v.Size == 0 {
		v.Size = len(v.Replay)
	}
	m.Tot.VioCounts[v.Sig]++
	m.Tot.Violations = append(m.Tot.Violations, v)
}

// confirm replays a violation n times in fresh subprocesses; every run must
// report the same signature (or die again for process-died signatures).
func (m *Master) confirm(v Violation, n int) (bool, string) {
	self, _ := os.Executable()
	f := filepath.Join(m.Scratch, "payload.json")
	if err := os.WriteFile(f, v.Replay, 0o644); err != nil {
		return false, err.Error()
	}
	for i := 0; i < n; i++ {
		cmd := exec.Command(self, "-replay-payload", f, "-prop", m.Prop.ID, "-tier", m.Tier, "-dir", m.Dir, "-scratch", m.Scratch, "-repo", m.Repo)
		cmd.Env = append(os.Environ(), "GOMAXPROCS=2", "GOTRACEBACK=single")
		var so bytes.Buffer
		cmd.Stdout = &so
		done := make(chan error, 1)
		if err := cmd.Start(); err != nil {
			return false, err.Error()
		}
		go func() { done <- cmd.Wait() }()
		var err error
		timedOut := false
		select {
		case err = <-done:
		case <-time.After(150 * time.Second):
			cmd.Process.Kill()
			<-done
			timedOut = true
		}
		if strings.HasPrefix(v.Sig, "process-hung/") {
			if !timedOut {
				return false, fmt.Sprintf("replay %d of %s terminated", i, v.Sig)
			}
			n = 2 // two 150 s confirmations are enough for a hang
			continue
		}
		if strings.HasPrefix(v.Sig, "process-died/") {
			if err == nil {
				return false, fmt.Sprintf("replay %d of %s did not die", i, v.Sig)
			}
			continue
		}
		if timedOut || err != nil {
			return false, fmt.Sprintf("replay %d of %s: subprocess failed (%v, timeout=%v)", i, v.Sig, err, timedOut)
		}
		var res TaskResult
		if e := json.Unmarshal(bytes.TrimSpace(so.Bytes()), &res); e != nil {
			return false, "garbled replay output: " + e.Error()
		}
		if res.Fatal != "" {
			return false, "replay: " + res.Fatal
		}
		if res.VioCounts[v.Sig] == 0 {
			return false, fmt.Sprintf("replay %d did not reproduce %s (got %v)", i, v.Sig, sortedKeys(res.VioCounts))
		}
	}
	return true, ""
}

func (m *Master) loadKnown() []knownFinding {
	var kf knownFile
	b, err := os.ReadFile(filepath.Join(m.Dir, "known_findings.json"))
	if err != nil {
		return nil
	}
	if err := json.Unmarshal(b, &kf); err != nil {
		fmt.Fprintf(os.Stderr, "known_findings.json: %v\n", err)
		os.Exit(2)
	}
	return kf.Findings
}

func (m *Master) finish() int {
	t := m.Tot
	p := m.Prop
	exit := 0
	// A harness failure (a task that could not do its work, a worker that died outside a marked case) makes the
	// run incomplete; it is printed after the violations: a violation that reproduces from its own payload in
	// fresh processes stands by itself, and then the failure is reported as INCOMPLETE beside it.
	// group violations by signature, smallest first
	bySig := map[string][]Violation{}
	for _, v := range t.Violations {
		bySig[v.Sig] = append(bySig[v.Sig], v)
	}
	known := map[string]knownFinding{}
	for _, k := range m.loadKnown() {
		if k.Property == p.ID && k.Status == "known" {
			known[k.Sig] = k
		}
	}
	nviol := 0
	var unconfirmed []string
	var knownSeen []string
	var vioSummaries []map[string]any
	for _, sig := range sortedKeys(bySig) {
		vs := bySig[sig]
		sort.SliceStable(vs, func(i, j int) bool { return vs[i].Size < vs[j].Size })
		v := vs[0]
		if k, ok := known[sig]; ok {
			fmt.Printf("KNOWN-FINDING: property=%s %s [sig=%s cases=%d e.g. %s]\n", p.ID, k.What, sig, t.VioCounts[sig], oneLine(v.Desc, 160))
			knownSeen = append(knownSeen, sig)
			continue
		}
		ok, why := true, ""
		if !v.Precise {
			// the smallest counterexample first; if it does not reproduce from its own payload in a
			// fresh process (it may have failed only because of cases run before it in the same worker),
			// other counterexamples with the same signature are tried — a payload that carries its own
			// history reproduces
			tried := 0
			for _, cand := range vs {
				if tried >= 8 {
					break
				}
				tried++
				if ok1, why1 := m.confirm(cand, 1); !ok1 {
					ok, why = false, why1
					continue
				}
				if ok, why = m.confirm(cand, 4); ok {
					v = cand
					break
				}
			}
		}
		if !ok {
			// Not reproducible from its own payload in a fresh process.  If some other violation of
			// this run is confirmed the verdict stands on that one (typical cause: the implementation
			// leaks state between calls, so a case fails only after the cases run before it in the
			// same worker); if none is, the run is a harness failure — never a VIOLATION line.
			unconfirmed = append(unconfirmed, fmt.Sprintf("violation %s not reproducible: %s [first report: %s]", sig, why, oneLine(vs[0].Desc, 300)))
			continue
		}
		nviol++
		rdir := filepath.Join(m.Dir, "replays", p.ID)
		os.MkdirAll(rdir, 0o755)
		rf := filepath.Join(rdir, sanitize(sig)+".json")
		rec := map[string]any{"property": p.ID, "sig": sig, "desc": v.Desc, "cases_with_this_signature": t.VioCounts[sig], "replay": v.Replay,
			"how": fmt.Sprintf("./check %s --replay %s", p.ID, rf)}
		b, _ := json.MarshalIndent(rec, "", " ")
		os.WriteFile(rf, b, 0o644)
		fmt.Printf("VIOLATION property=%s replay=%s\n", p.ID, rf)
		fmt.Printf("  sig=%s cases=%d\n  %s\n", sig, t.VioCounts[sig], oneLine(v.Desc, 400))
		vioSummaries = append(vioSummaries, map[string]any{"sig": sig, "cases": t.VioCounts[sig], "desc": oneLine(v.Desc, 300)})
		if exit == 0 {
			exit = 1
		}
	}
	if t.Fatal != "" {
		if nviol > 0 {
			fmt.Printf("INCOMPLETE property=%s %s\n", p.ID, oneLine(t.Fatal, 400))
		} else {
			fmt.Printf("HARNESS-ERROR property=%s %s\n", p.ID, t.Fatal)
			exit = 2
		}
	}
	for _, u := range unconfirmed {
		if nviol > 0 {
			fmt.Printf("UNCONFIRMED property=%s %s\n", p.ID, u)
		} else {
			fmt.Printf("HARNESS-ERROR property=%s %s\n", p.ID, u)
			exit = 2
		}
	}
	exhaustive := !t.Capped && t.TasksDone == t.Tasks && t.Fatal == ""
	if exit == 0 && p.Vacuity != nil && exhaustive {
		if err := p.Vacuity(m.Tier, t); err != nil {
			fmt.Printf("HARNESS-ERROR property=%s vacuous run: %v\n", p.ID, err)
			exit = 2
		}
	}
	m.writeEvidence(exhaustive, nviol, knownSeen, vioSummaries)
	fmt.Printf("%s tier=%s evaluations=%d distinct_nontrivial=%d states=%d transitions=%d outcomes=%d tasks=%d/%d exhaustive=%v violations=%d known=%d wall=%.1fs\n",
		p.ID, m.Tier, t.Evaluations, t.Nontrivial, t.States, t.Transitions, len(t.OutcomeSet), t.TasksDone, t.Tasks, exhaustive, nviol, len(knownSeen), time.Since(m.start).Seconds())
	return exit
}

func oneLine(s string, n int) string {
	s = strings.ReplaceAll(s, "\n", "\\n")
	if len(s) > n {
		s = s[:n] + "…"
	}
	return s
}

func sanitize(s string) string {
	var b strings.Builder
	for _, r := range s {
		if r >= 'a' && r <= 'z' || r >= 'A' && r <= 'Z' || r >= '0' && r <= '9' || r == '-' || r == '_' || r == '.' {
			b.WriteRune(r)
		} else {
			b.WriteByte('_')
		}
	}
	o := b.String()
	if len(o) > 100 {
		o = o[:100] + fmt.Sprintf("_%x", h64(s))
	}
	return o
}

func (m *Master) writeEvidence(exhaustive bool, nviol int, knownSeen []string, vios []map[string]any) {
	t := m.Tot
	p := m.Prop
	samples := []any{}
	for _, s := range t.Samples {
		samples = append(samples, json.RawMessage(s))
	}
	outcomes := sortedKeys(t.OutcomeSet)
	if len(outcomes) > 40 {
		outcomes = outcomes[:40]
	}
	cov := map[string]any{
		"evaluations":                   t.Evaluations,
		"distinct_nontrivial":           t.Nontrivial,
		"rule":                          p.Rule,
		"samples":                       samples,
		"exhaustive":                    exhaustive,
		"tasks":                         t.Tasks,
		"tasks_completed":               t.TasksDone,
		"distinct_outcomes":             len(t.OutcomeSet),
		"outcome_examples":              outcomes,
		"skipped_ambiguous":             t.Skipped,
		"counters":                      t.Extra,
		"flags_observed":                sortedKeys(t.Flags),
		"time_cap_hit":                  t.Capped,
		"known_findings_observed":       knownSeen,
		"violations_reported":           vios,
		"notes":                         t.Notes,
		"traces_validated_against_impl": t.Evaluations,
	}
	if t.States > 0 || p.Level == "model_checking" {
		cov["states"] = t.States
		cov["transitions"] = t.Transitions
	}
	ev := map[string]any{
		"property_id": p.ID,
		"tier":        m.Tier,
		"seed":        m.Seed,
		"level":       p.Level,
		"coverage":    cov,
		"assumptions": p.Assumptions,
		"wall_s":      time.Since(m.start).Seconds(),
		"violations":  nviol,
	}
	b, _ := json.MarshalIndent(ev, "", " ")
	os.MkdirAll(filepath.Join(m.Dir, "evidence"), 0o755)
	os.WriteFile(filepath.Join(m.Dir, "evidence", p.ID+".json"), append(b, '\n'), 0o644)
}

// replayFile re-runs a recorded violation (./check <id> --replay file).
func (m *Master) replayFile(path string) int {
	b, err := os.ReadFile(path)
	if err != nil {
		fmt.Fprintln(os.Stderr, err)
		return 2
	}
	var rec struct {
		Sig    string          `json:"sig"`
		Replay json.RawMessage `json:"replay"`
	}
	if err := json.Unmarshal(b, &rec); err != nil {
		fmt.Fprintln(os.Stderr, err)
		return 2
	}
	ok, why := m.confirm(Violation{Sig: rec.Sig, Replay: rec.Replay}, 1)
	if ok {
		fmt.Printf("VIOLATION property=%s replay=%s\n  reproduced sig=%s\n", m.Prop.ID, path, rec.Sig)
		return 1
	}
	fmt.Printf("not reproduced: %s\n", why)
	return 0
}
