package mc

import (
	"fmt"
	"regexp"
	"strings"

	"github.com/evolbioinfo/goalign/verifrt/vrt"
)

// Explorer enumerates every execution of body inside the deviation bounds:
// a stateless depth-first search over the tree of choice points (scheduling
// decisions, RNG answers, map-iteration orders, clock answers) recorded by the
// runtime.  Choice 0 everywhere is the default execution; an alternative at a
// point of kind k costs Point.Cost deviations of kind k (0 for RNG answers and
// for scheduling decisions taken while the running thread is blocked, 1 for a
// preemption, a non-sorted map order, a clock step).
type Explorer struct {
	Opts vrt.Options
	// Bound per kind: maximal total cost of deviations of that kind in one
	// execution.  A kind that is absent is unbounded.
	Bound map[string]int
	// ChargeFree: kinds for which an alternative the runtime offers for free (a switch
	// while the running thread is blocked) is charged one deviation as well: the bound
	// then limits ALL departures from the default execution, which keeps trees with many
	// runnable threads finite in practice (plain deviation bounding instead of
	// preemption bounding).
	ChargeFree map[string]bool
	// ShardN > 1 splits one tree over several tasks: this explorer only follows the
	// alternatives of the root execution at points whose index is ShardI modulo ShardN
	// (deeper levels are explored completely).  Every shard runs the root execution.
	ShardN, ShardI int
	// TotalBound (>0): maximal total cost over all bounded kinds in one execution.
	TotalBound int
	// MaxExec caps the number of executions (0 = none); hitting it is reported.
	MaxExec int64
	// Body runs one execution of the code under test (inside vrt.Run when the
	// scheduler is on) and returns whatever the check needs.
	Body func() any
	// Check is called after every complete execution.
	Check func(x *Execution)
	// Runner, when set, replaces the in-process execution: it runs one execution
	// replaying prefix elsewhere (the instrumented command-line binary as a
	// child process) and returns its record.
	Runner func(prefix []vrt.Point) *Execution

	Ctx *Ctx
	// NoCount: do not count executions / choice-tree nodes into Ctx (the
	// explicit-state search counts canonical states and transitions itself).
	NoCount bool

	Executions int64
	Nodes      int64
	Capped     bool
	stop       bool
}

// Execution is one explored execution.
type Execution struct {
	Exec   *vrt.Exec
	Result any
	Panic  any // value the body panicked with (ExitPanic, runtime error …), nil otherwise
	// NoExpand, set by Check, tells the explorer not to explore the executions that
	// extend this one by further deviations (used when this execution already violates:
	// its extensions are explained by it).
	NoExpand bool
}

// Choices renders the choice list compactly, e.g. "sched:1/3 intn:2/4".
func (x *Execution) Choices() string { return RenderPoints(x.Exec.Points) }

func RenderPoints(ps []vrt.Point) string {
	var b strings.Builder
	for i, p := range ps {
		if i > 0 {
			b.WriteByte(' ')
		}
		fmt.Fprintf(&b, "%s:%d/%d", p.Kind, p.Chosen, p.N)
	}
	return b.String()
}

// RunOnce executes body once replaying prefix.
func (e *Explorer) RunOnce(prefix []vrt.Point) *Execution {
	if e.Runner != nil {
		return e.Runner(prefix)
	}
	x := &Execution{}
	vrt.Begin(prefix, e.Opts)
	func() {
		defer func() {
			if r := recover(); r != nil {
				x.Panic = r
			}
		}()
		if e.Opts.Sched {
			var res any
			p := vrt.Run(func() { res = e.Body() })
			x.Result = res
			if p != nil {
				x.Panic = p
			}
		} else {
			x.Result = e.Body()
		}
	}()
	x.Exec = vrt.End()
	return x
}

// Explore runs the search.  It returns false if a cap stopped it.
func (e *Explorer) Explore() bool {
	e.explore(nil)
	return !e.Capped
}

// ExploreFrom explores the subtree below a given choice prefix (used by the
// explicit-state search: the prefix holds the environment answers of the
// history that reaches a state, the subtree the answers of one more operation).
func (e *Explorer) ExploreFrom(prefix []vrt.Point) bool {
	e.explore(prefix)
	return !e.Capped
}

// Stop ends the search early (e.g. after a violation).
func (e *Explorer) Stop() { e.stop = true }

func (e *Explorer) explore(prefix []vrt.Point) {
	if e.stop {
		return
	}
	if e.MaxExec > 0 && e.Executions >= e.MaxExec {
		e.Capped = true
		return
	}
	if e.Ctx != nil && e.Ctx.Expired() {
		e.Capped = true
		return
	}
	x := e.RunOnce(prefix)
	e.Executions++
	if e.Ctx != nil && !e.NoCount {
		e.Ctx.Eval()
		e.Ctx.Transition(int64(len(x.Exec.Points) - len(prefix)))
		e.Ctx.State(int64(len(x.Exec.Points) - len(prefix) + 1))
	}
	e.Nodes += int64(len(x.Exec.Points) - len(prefix) + 1)
	if x.Exec.Diverged != "" {
		if e.Ctx != nil {
			e.Ctx.Fatal("nondeterminism not owned: %s", x.Exec.Diverged)
		}
		e.stop = true
		return
	}
	if x.Exec.StuckZombie {
		if e.Ctx != nil {
			e.Ctx.Fatal("a goroutine of an aborted execution did not terminate")
		}
		e.stop = true
		return
	}
	e.Check(x)
	if x.NoExpand {
		return
	}
	pts := x.Exec.Points
	spent := map[string]int{}
	total := 0
	for i := 0; i < len(pts); i++ {
		p := pts[i]
		if p.Cost == 0 && e.ChargeFree[p.Kind] {
			p.Cost = 1
		}
		if i >= len(prefix) {
			b, bounded := e.Bound[p.Kind]
			within := !bounded || p.Cost == 0 || (spent[p.Kind]+p.Cost <= b && (e.TotalBound <= 0 || total+p.Cost <= e.TotalBound))
			if within && len(prefix) == 0 && e.ShardN > 1 && i%e.ShardN != e.ShardI {
				within = false
			}
			if within {
				for alt := 1; alt < p.N; alt++ {
					np := make([]vrt.Point, i+1)
					copy(np, pts[:i])
					np[i] = vrt.Point{Kind: p.Kind, N: p.N, Chosen: alt, Cost: p.Cost}
					e.explore(np)
					if e.stop || e.Capped {
						return
					}
				}
			}
		}
		if p.Chosen != 0 {
			spent[p.Kind] += p.Cost
			if _, bounded := e.Bound[p.Kind]; bounded {
				total += p.Cost
			}
		}
	}
}

// Deterministic replays the prefix of x twice more and reports whether the
// traces are identical (proof obligation (i) of DESIGN.md §3).
func (e *Explorer) Deterministic(x *Execution, same func(a, b *Execution) bool) bool {
	y := e.RunOnce(x.Exec.Points)
	if len(y.Exec.Points) != len(x.Exec.Points) {
		return false
	}
	for i := range y.Exec.Points {
		if y.Exec.Points[i] != x.Exec.Points[i] {
			return false
		}
	}
	return same == nil || same(x, y)
}

// SchedProbe runs body — an operation documented as sequential — under the controlled
// scheduler with the given preemption bound.  If the operation spawns no goroutine this is a
// single execution; if a change to the code under test has made it concurrent, every
// interleaving inside the bound is explored: each must terminate, misuse no channel /
// WaitGroup / mutex, show no data race on instrumented shared variables, and return what the
// default execution returns (same(a, b)).  Violations are reported as
// <sigPrefix>/concurrent/<clause> with payload.
func SchedProbe(c *Ctx, sigPrefix, what string, bound int, payload any, body func() any, same func(a, b any) bool) {
	SchedProbeJudged(c, sigPrefix, what, bound, payload, body, same, nil)
}

// SchedProbeJudged is SchedProbe with an oracle for the result of the default execution: judge returns ""
// or what is wrong with it (reported as <sigPrefix>/concurrent/result-wrong).
func SchedProbeJudged(c *Ctx, sigPrefix, what string, bound int, payload any, body func() any, same func(a, b any) bool, judge func(first any) string) {
	schedProbe(c, sigPrefix, what, bound, payload, body, same, judge, false)
}

// SchedProbeExitOK is SchedProbeJudged for entry points whose goroutines report an explicit error by
// printing it and ending the process (io.ExitWithMessage, turned into a panic of that goroutine by the
// instrumentation): such an execution is not a misuse, its result is ExitResult.
func SchedProbeExitOK(c *Ctx, sigPrefix, what string, bound int, payload any, body func() any, same func(a, b any) bool, judge func(first any) string) {
	schedProbe(c, sigPrefix, what, bound, payload, body, same, judge, true)
}

// ExitResult is the result of an execution that ended in io.ExitWithMessage (see SchedProbeExitOK).
const ExitResult = "explicit error: message and exit"

var exitInGoroutine = regexp.MustCompile(`^panic in goroutine T\d+: \{\d+\} @io\.ExitWithMessage`)

func schedProbe(c *Ctx, sigPrefix, what string, bound int, payload any, body func() any, same func(a, b any) bool, judge func(first any) string, exitOK bool) {
	var first any
	have := false
	ex := &Explorer{Ctx: c, NoCount: true, Opts: vrt.Options{Sched: true, MaxSteps: 2000000}, Bound: map[string]int{"sched": bound}, Body: body}
	ex.Check = func(x *Execution) {
		c.Eval()
		e := x.Exec
		if exitOK && len(e.Errors) > 0 {
			all := true
			for _, m := range e.Errors {
				all = all && exitInGoroutine.MatchString(m)
			}
			if all {
				e.Errors, e.Deadlock, e.Blocked = nil, false, nil
				x.Result, x.Panic = ExitResult, nil
			}
		}
		bad := func(clause, desc string) {
			c.Violation(sigPrefix+"/concurrent/"+clause, fmt.Sprintf("%s under schedule [%s]: %s", what, x.Choices(), desc), payload)
			x.NoExpand = true
			ex.Stop()
		}
		switch {
		case e.Horizon:
			bad("horizon", "did not finish within the step horizon")
		case e.Deadlock:
			bad("deadlock", "never returns: "+strings.Join(e.Blocked, ", "))
		case len(e.Errors) > 0:
			bad("sync-misuse", strings.Join(e.Errors, "; "))
		case x.Panic != nil:
			bad("panic", fmt.Sprint(x.Panic))
		case len(e.Races) > 0:
			bad("data-race", e.Races[0])
		case !have:
			first, have = x.Result, true
			if e.Threads > 1 {
				c.Count("sched_probe_concurrent_operations", 1)
			}
			if judge != nil {
				if why := judge(first); why != "" {
					bad("result-wrong", why)
				}
			}
		case !same(first, x.Result):
			bad("result-depends-on-schedule", fmt.Sprintf("%v vs %v", first, x.Result))
		}
	}
	ex.Explore()
	c.Count("sched_probe_executions", ex.Executions)
}
