package mc

import (
	"bytes"
	"fmt"
	"io"
	"os"
	"os/exec"
	"path/filepath"
	"regexp"
	"strings"
	"time"
)

var raceFrame = regexp.MustCompile(`(?m)^  (github\.com/evolbioinfo/goalign/[^\s(]+)`)

// RacePass builds harness/racepass with the Go race detector against the
// repository under test and runs the named body uncontrolled.  Every distinct
// report becomes a violation (the detector is precise; reports are not
// replayed).  Results are also written into the evidence counters.
func (m *Master) RacePass(what string) {
	bin := filepath.Join(m.Scratch, "racepass")
	build := exec.Command("go", "build", "-race", "-modfile="+filepath.Join(m.Scratch, "go.mod"), "-o", bin, "./racepass")
	build.Dir = filepath.Join(m.Dir, "harness")
	build.Env = append(os.Environ(), "CGO_ENABLED=1")
	if out, err := build.CombinedOutput(); err != nil {
		m.Tot.Notes = append(m.Tot.Notes, "free-running -race pass could not be built (evidence only from the controlled exploration): "+oneLine(string(out), 300))
		m.Tot.Extra["racepass_built"] = 0
		return
	}
	m.Tot.Extra["racepass_built"] = 1
	cmd := exec.Command(bin, what)
	cmd.Env = append(os.Environ(), "GORACE=halt_on_error=0 exitcode=0")
	var out bytes.Buffer
	cmd.Stdout = &out
	cmd.Stderr = &out
	done := make(chan error, 1)
	cmd.Start()
	go func() { done <- cmd.Wait() }()
	select {
	case <-done:
	case <-time.After(120 * time.Second):
		cmd.Process.Kill()
		<-done
		m.Tot.Notes = append(m.Tot.Notes, "free-running -race pass killed after 120 s (a deadlock in free-running mode is not a verdict of this pass)")
		m.Tot.Extra["racepass_timeout"] = 1
	}
	s := out.String()
	reports := strings.Split(s, "WARNING: DATA RACE")
	m.Tot.Extra["racepass_reports"] += int64(len(reports) - 1)
	m.Tot.Extra["racepass_runs"]++
	if strings.Contains(s, "RACEPASS-DONE") {
		m.Tot.Extra["racepass_completed"]++
	}
	if n := strings.Count(s, "RACEPASS-ERROR-LOST"); n > 0 {
		// an observed run in which a failure was not reported to the caller: a real execution, not a guess
		m.Tot.Extra["racepass_error_lost"] = int64(n)
		payload := []byte(fmt.Sprintf(`{"kind":"racepass","what":%q}`, what))
		m.AddViolation(Violation{Sig: m.Prop.ID + "/free-running/error-lost", Desc: fmt.Sprintf("free-running pass %q: in %d runs a failure of the producer was not visible to the consumer", what, n), Replay: payload, Precise: true})
	}
	for _, mk := range []struct{ marker, sig, what string }{
		{"RACEPASS-RESULT-DIFFERS", "result-differs-from-sequential", "work done by concurrent goroutines on objects of their own gave other values than the same work done alone"},
		{"RACEPASS-PANIC", "panic-in-concurrent-use", "work done by concurrent goroutines on objects of their own panicked"},
	} {
		if n := strings.Count(s, mk.marker); n > 0 {
			m.Tot.Extra["racepass_"+mk.sig] = int64(n)
			payload := []byte(fmt.Sprintf(`{"kind":"racepass","what":%q}`, what))
			m.AddViolation(Violation{Sig: m.Prop.ID + "/free-running/" + mk.sig, Desc: fmt.Sprintf("free-running pass %q: %d times %s", what, n, mk.what), Replay: payload, Precise: true})
		}
	}
	seen := map[string]bool{}
	for _, r := range reports[1:] {
		fr := raceFrame.FindAllStringSubmatch(r, -1)
		site := "?"
		if len(fr) > 0 {
			site = fr[0][1]
			if i := strings.LastIndex(site, "/"); i >= 0 {
				site = site[i+1:]
			}
		}
		sig := fmt.Sprintf("%s/race-detector/%s", m.Prop.ID, site)
		if seen[sig] {
			continue
		}
		seen[sig] = true
		payload := []byte(fmt.Sprintf(`{"kind":"racepass","what":%q}`, what))
		m.AddViolation(Violation{Sig: sig, Desc: "go race detector, free-running pass: " + oneLine(strings.TrimSpace(r), 700), Replay: payload, Precise: true})
	}
}

// RacePassCLI is the free-running pass for the command line: goalign itself is built with the race detector from
// the repository's current tree and each argument list is run in dir; every report of the detector is a
// violation <prop>/race-detector-cli/<site>.  (The controlled exploration of the instrumented binary orders
// goroutines at their synchronisation operations only; memory shared without any is what this pass is for.)
func (m *Master) RacePassCLI(dir string, runs [][]string) {
	bin := filepath.Join(m.Scratch, "goalign-race")
	build := exec.Command("go", "build", "-race", "-o", bin, ".")
	build.Dir = m.Repo
	build.Env = append(os.Environ(), "CGO_ENABLED=1")
	if out, err := build.CombinedOutput(); err != nil {
		m.Tot.Notes = append(m.Tot.Notes, "goalign could not be built with -race (evidence only from the controlled exploration): "+oneLine(string(out), 300))
		m.Tot.Extra["racepass_cli_built"] = 0
		return
	}
	m.Tot.Extra["racepass_cli_built"] = 1
	seen := map[string]bool{}
	for _, args := range runs {
		cmd := exec.Command(bin, args...)
		cmd.Dir = dir
		cmd.Env = append(os.Environ(), "GORACE=halt_on_error=0 exitcode=0")
		var out bytes.Buffer
		cmd.Stdout = io.Discard
		cmd.Stderr = &out
		done := make(chan error, 1)
		if cmd.Start() != nil {
			continue
		}
		go func() { done <- cmd.Wait() }()
		select {
		case <-done:
		case <-time.After(60 * time.Second):
			cmd.Process.Kill()
			<-done
			m.Tot.Extra["racepass_cli_timeout"]++
		}
		m.Tot.Extra["racepass_cli_runs"]++
		reports := strings.Split(out.String(), "WARNING: DATA RACE")
		m.Tot.Extra["racepass_cli_reports"] += int64(len(reports) - 1)
		for _, r := range reports[1:] {
			fr := raceFrame.FindAllStringSubmatch(r, -1)
			site := "?"
			if len(fr) > 0 {
				site = fr[0][1]
				if i := strings.LastIndex(site, "/"); i >= 0 {
					site = site[i+1:]
				}
			}
			sig := fmt.Sprintf("%s/race-detector-cli/%s", m.Prop.ID, site)
			if seen[sig] {
				continue
			}
			seen[sig] = true
			payload := []byte(fmt.Sprintf(`{"kind":"racepass","what":%q}`, "goalign "+strings.Join(args, " ")))
			m.AddViolation(Violation{Sig: sig, Desc: "go race detector, goalign " + strings.Join(args, " ") + ": " + oneLine(strings.TrimSpace(r), 700), Replay: payload, Precise: true})
		}
	}
}
